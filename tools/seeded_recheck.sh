#!/bin/bash
# usage: tools/seeded_recheck.sh <seeded-id> <Cxx> [tier] [slot]
# Applies /verif/seeded/<id>/patch.diff to a scratch worktree of /repo's HEAD (never to /repo), runs the
# registered check against it (VERIF_REPO development aid, scratch evidence) and prints one summary line:
#   <id> <Cxx> exit=<n> <kind xcount, ...>
ID=$1; PROP=$2; TIER=${3:-quick}; SLOT=${4:-0}
WT=/tmp/seed/recheck$SLOT
if [ ! -d "$WT" ]; then git -C /repo worktree add --detach "$WT" HEAD >/dev/null 2>&1 || exit 2; fi
cd "$WT" && git checkout -q -- . && git clean -fdq && git checkout -q --detach $(git -C /repo rev-parse HEAD) 2>/dev/null
git apply /verif/seeded/$ID/patch.diff || { echo "$ID $PROP PATCH-DOES-NOT-APPLY"; exit 2; }
cd /verif
EV=/tmp/semaverif-scratch-evidence/recheck-$ID
rm -rf "$EV"
VERIF_REPO=$WT VERIF_EVIDENCE_DIR=$EV ./check $PROP --tier $TIER > /tmp/seeded_recheck.$ID.$PROP.log 2>&1
RC=$?
KINDS=$(python3 - "$EV" <<'PY'
import json,glob,sys,collections
c=collections.Counter()
for f in glob.glob(sys.argv[1]+'/replays/*.json'):
    try: c[json.load(open(f))['violation']['kind']]+=1
    except Exception: pass
print(', '.join(f'{k} x{v}' for k,v in c.most_common(5)))
PY
)
TOTAL=$(grep -E '^(VIOLATED|HELD|INCONCLUSIVE) ' /tmp/seeded_recheck.$ID.$PROP.log | tail -1 | grep -o 'unlisted_violations=[0-9]*')
echo "$ID $PROP tier=$TIER exit=$RC $TOTAL [$KINDS]"
(cd "$WT" && git checkout -q -- . && git clean -fdq -e SEEDED -e TASK.md)
