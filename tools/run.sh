#!/bin/bash
# dev helper: vet, clear replays, run a check with compact output
cd /verif
export PATH=/root/go/pkg/mod/golang.org/toolchain@v0.0.1-go1.24.3.linux-amd64/bin:$PATH GOTOOLCHAIN=local GOFLAGS=-mod=mod GOPROXY=off GOSUMDB=off
(cd harness && go vet -tags verif ./... 2>&1 | head -20)
find /verif/replays -name "$1-*.json" -delete 2>/dev/null
./check "$@" 2>&1 | grep -v '"level":"info"' | cut -c1-${CUT:-900} | grep -v "^          " | tail -${TAIL:-40}
