#!/bin/bash
# usage: tools/nc_eval.sh <worktree> <N> <tier> <Cxx> [<Cxx> ...]
# Negative control: applies SEEDED/<N>/patch.diff (a property-PRESERVING change written by a sub-agent)
# in its scratch worktree, confirms it builds and the repository suite passes, and runs the registered
# checks against it. Every check must stay silent (HELD).
WT=$1; N=$2; TIER=$3; shift 3
export PATH=/root/go/pkg/mod/golang.org/toolchain@v0.0.1-go1.24.3.linux-amd64/bin:$PATH GOTOOLCHAIN=local GOFLAGS=-mod=mod GOPROXY=off GOSUMDB=off
cd "$WT" || exit 2
git checkout -q -- .
git apply "SEEDED/$N/patch.diff" || { echo "NC $(basename $WT)/$N PATCH-DOES-NOT-APPLY"; exit 2; }
B=$(go build -tags verif ./... 2>&1 | grep -v hdf5 | grep -v '^#' | grep -v '^ ' | grep -v compilation | head -3)
[ -n "$B" ] && echo "BUILD: $B"
if [ "${NC_SUITE:-1}" = 1 ]; then
  SUITE=$(go test -vet=off -count=1 $(go list ./... 2>/dev/null | grep -v loadhdf5 | grep -v SEEDED) 2>&1 | grep -E "^(FAIL|---)" | head -3)
  [ -n "$SUITE" ] && echo "NC $(basename $WT)/$N SUITE-FAILS: $SUITE"
fi
cd /verif
for P in "$@"; do
  EV=/tmp/semaverif-scratch-evidence/nc-$(basename $WT)-$N
  VERIF_REPO=$WT VERIF_EVIDENCE_DIR=$EV ./check $P --tier $TIER > /tmp/nc_eval.$(basename $WT).$N.$P.log 2>&1
  echo "NC $(basename $WT)/$N $P exit=$? $(grep -E '^(HELD|VIOLATED|INCONCLUSIVE|BUILD-FAILED)' /tmp/nc_eval.$(basename $WT).$N.$P.log | tail -1 | cut -c1-160)"
  grep -E "^VIOLATION" /tmp/nc_eval.$(basename $WT).$N.$P.log | head -3 | cut -c1-300
done
(cd "$WT" && git checkout -q -- .)
