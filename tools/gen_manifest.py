#!/usr/bin/env python3
"""Regenerates /verif/MANIFEST.json from the table below (keeps it valid at all times)."""
import json, os, subprocess
HERE = os.path.dirname(os.path.dirname(os.path.abspath(__file__)))

CHECKS = {
 "C13": dict(level="exploration", technique="metamorphic runtime oracle over the real RendezvousHash (permutation, add/remove one server, share, input not mutated, concurrent decisions on one shared server list)",
   text="Held on every (key, server set, change) triple executed: ~6e5 quick / ~2e7 thorough triples over hostile keys and 1..16 servers. A metamorphic oracle needs no re-implementation of the hash, so it cannot share a bug with it.",
   note="Trusted: Go's slices/cmp; score ties (2^-64) are unobserved.", ref="4 C13"),
 "C19": dict(level="exploration", technique="round-trip / injectivity / all-pairs order oracle + scan-vs-definition oracle on both storage back ends, under -race (checkptr)",
   text="All-pairs order and round-trip over boundary pools (~3e6 pairs quick), every vector length 1..4096, all key families (term keys up to 70001 bytes, pairs differing in the last byte only), RangeScan/PrefixScan on bbolt and memory compared with the value-level definition.",
   note="Trusted: bytes.Compare, math.Float64bits. NaN excluded as the property states.", ref="4 C19"),
 "C20": dict(level="exploration", technique="differential oracle vs float64 reference on every length 1..4096 with operands against PROT_NONE guard pages (child per block)",
   text="Every length x placements x distributions incl. one-hot spikes, denormal x large and tiny components (the bound follows gradual underflow, so flush-to-zero / denormals-are-zero kernels are refuted); hamming/jaccard through the binary store for every bit length; product-quantiser point-to-point and float-to-point distances against the metric on the persisted centroids (3 metrics x 5 shapes, training data shifted far from the origin for a third of them); forward-error bound derived from the operation count; guard pages turn any over/under-read of the assembly kernels into a fatal fault that the parent classifies.",
   note="Trusted: float64 reference, mmap/mprotect. Only the kernels selected on this CPU (AVX2+FMA assembly) are exercised; the pure-Go fallback is covered by the same oracle only on machines without AVX2.", ref="4 C20"),
}
NOT_YET = {}
ALL = ["C%02d" % i for i in range(1, 21)]

def main():
    extra = {}
    p = os.path.join(HERE, "tools", "manifest_table.json")
    if os.path.exists(p):
        extra = json.load(open(p))
    checks_tbl = dict(CHECKS); checks_tbl.update(extra.get("checks", {}))
    na_tbl = dict(NOT_YET); na_tbl.update(extra.get("not_applicable", {}))
    checks = []
    for pid in ALL:
        if pid not in checks_tbl: continue
        c = checks_tbl[pid]
        checks.append({
            "property_id": pid,
            "quick_cmd": f"./check {pid} --tier quick",
            "thorough_cmd": f"./check {pid} --tier thorough",
            "evidence_file": f"/verif/evidence/{pid}.json",
            "replay_cmd_template": f"./check {pid} --replay {{path}}",
            "engine": "semaverif",
            "level_claimed": {"category": c["level"], "text": c["text"], "design_ref": "DESIGN.md section " + c["ref"]},
            "level_note": c["note"],
            "technique": c["technique"],
        })
    na = []
    for pid in ALL:
        if pid in checks_tbl: continue
        na.append({"property_id": pid, "reason": na_tbl.get(pid, "check not built yet in this round; planned as described in DESIGN.md (runtime monitoring applies)")})
    hooks_commits = subprocess.run(["git", "-C", "/repo", "log", "--format=%H %s"], capture_output=True, text=True).stdout.splitlines()
    hook_shas = [l.split()[0] for l in hooks_commits if "verif hooks" in l or l.split(" ",1)[1].startswith("verif:")]
    m = {
        "version": 1,
        "setup_cmd": "./setup.sh",
        "hooks": {
            "guard": "verif (Go build tag)",
            "enable": "go build -tags verif (the harness module replaces github.com/semafind/semadb with /repo, so every check rebuilds /repo's working tree with hooks on)",
            "baseline_off_cmd": "cd /repo && go test -mod=mod -json -vet=off -count=1 -timeout 25m ./...",
            "source_commits": hook_shas,
            "add_only": True,
        },
        "engines": [{"name": "semaverif", "path": "/verif/harness", "serves_properties": [c["property_id"] for c in checks],
                     "kind_free_text": "Go harness: seeded hostile workloads against the real packages in worker child processes; reference models, invariant checkers over raw bbolt dumps, porcupine history checking, race detector / checkptr, guard pages, storage fault-injection proxy"}],
        "checks": checks,
        "not_applicable": na,
        "notes": "Exit codes: 0 held on everything explored, 1 violation (VIOLATION line + replay file), 3 observed too little (INCONCLUSIVE line, never counted as held). Known findings: /verif/KNOWN_FINDINGS.jsonl.",
    }
    json.dump(m, open(os.path.join(HERE, "MANIFEST.json"), "w"), indent=1)
    print("checks:", [c["property_id"] for c in checks], "na:", [n["property_id"] for n in na])

main()
