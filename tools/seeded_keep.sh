#!/bin/bash
# usage: tools/seeded_keep.sh <worktree> <seeded-id> <Cxx> <demo path> '<needs>' '<caught>' '<index cell>'
WT=$1; ID=$2; PROP=$3; DEMO=$4; NEEDS=$5; CAUGHT=$6; CELL=$7
cd /verif
python3 tools/seeded_meta.py "$ID" "$PROP" "$DEMO" "$NEEDS" "$CAUGHT"
echo "| $ID | $PROP | $CELL |" >> seeded/INDEX.md
git -C /repo worktree remove --force "$WT"
