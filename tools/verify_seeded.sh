#!/bin/bash
# usage: verify_seeded.sh <worktree> <seeded-id> <demo-destination-relative-path> [extra go test flags for demo]
# Confirms in the scratch worktree: patch applies, repository suite passes with it, demonstration
# fails with it and passes without it. Copies patch + demo into /verif/seeded/<id>/.
WT=$1; ID=$2; DEMO_DST=$3; shift 3; DEMOFLAGS="$*"
export PATH=/root/go/pkg/mod/golang.org/toolchain@v0.0.1-go1.24.3.linux-amd64/bin:$PATH GOTOOLCHAIN=local GOFLAGS=-mod=mod GOPROXY=off GOSUMDB=off
cd "$WT" || exit 2
git checkout -q -- . ; rm -f "$DEMO_DST"
git apply --check SEEDED/patch.diff || { echo "PATCH DOES NOT APPLY"; exit 1; }
git apply SEEDED/patch.diff
echo "--- suite with the change"
go build ./... 2>&1 | grep -v hdf5 | grep -v '^#' | grep -v '^ ' | grep -v compilation | head -5
SUITE=$(go test -vet=off -count=1 $(go list ./... 2>/dev/null | grep -v /SEEDED | grep -v loadhdf5) 2>&1 | grep -v "no test files" | grep -v loadhdf5 | grep -v hdf5 | grep -v '^ ' | grep -v '^#' | grep -v compilation | grep -v "^FAIL$")
echo "$SUITE" | grep -v "^ok" | head
if echo "$SUITE" | grep -q "^FAIL\|^---"; then SUITE_OK=false; else SUITE_OK=true; fi
echo "suite_passes_with_change=$SUITE_OK"
cp SEEDED/demo_test.go "$DEMO_DST"
PKG=./$(dirname "$DEMO_DST")
echo "--- demo with the change (must fail)"
if go test -vet=off -count=1 $DEMOFLAGS -run 'Seeded|Demo' $PKG > /tmp/demo_with.$$ 2>&1; then WITH=pass; else WITH=fail; fi
tail -5 /tmp/demo_with.$$ | cut -c1-300
git checkout -q -- . 
echo "--- demo without the change (must pass)"
if go test -vet=off -count=1 $DEMOFLAGS -run 'Seeded|Demo' $PKG > /tmp/demo_without.$$ 2>&1; then WITHOUT=pass; else WITHOUT=fail; fi
tail -3 /tmp/demo_without.$$ | cut -c1-300
rm -f "$DEMO_DST" /tmp/demo_with.$$ /tmp/demo_without.$$
echo "RESULT id=$ID suite_passes_with_change=$SUITE_OK demo_with_change=$WITH demo_without_change=$WITHOUT"
if [ "$SUITE_OK" = true ] && [ "$WITH" = fail ] && [ "$WITHOUT" = pass ]; then
  mkdir -p /verif/seeded/$ID
  cp SEEDED/patch.diff /verif/seeded/$ID/patch.diff
  cp SEEDED/demo_test.go /verif/seeded/$ID/demo_test.go
  cp SEEDED/README.md /verif/seeded/$ID/AGENT_README.md 2>/dev/null
  echo "KEPT in /verif/seeded/$ID"
else
  echo "NOT KEPT"
fi
