#!/bin/bash
# usage: tools/sweep.sh <tier> <seed> <ids...>   - runs checks sequentially, prints one line per check
TIER=$1; SEED=$2; shift 2
for id in "$@"; do
  start=$(date +%s)
  out=$(VERIF_SEED=$SEED ./check $id --tier $TIER 2>&1 | grep -v '"level":"info"')
  rc=$?
  end=$(date +%s)
  echo "== $id tier=$TIER seed=$SEED wall=$((end-start))s: $(echo "$out" | grep -E '^(HELD|VIOLATED|INCONCLUSIVE|BUILD-FAILED)' | tail -1 | cut -c1-220)"
  echo "$out" | grep -E "unlisted-signature|^VIOLATION|KNOWN-FINDING" | cut -c1-300 | head -12
done
