#!/bin/bash
# usage: tools/seeded_eval.sh <worktree> <N> <seeded-id> <Cxx> [tier] [more Cxx ...]
# Round-2 protocol: the worktree holds SEEDED/<N>/{patch.diff,demo_test.go,where.txt,README.md} left by a
# sub-agent. Step 1 confirms independently: patch applies, builds with and without -tags verif, the
# repository suite passes with it, the demonstration fails with it and passes without it. Step 2 runs the
# registered check(s) against the changed worktree (VERIF_REPO development aid). Nothing touches /repo.
WT=$1; N=$2; ID=$3; PROP=$4; TIER=${5:-quick}; shift 5 2>/dev/null; MORE="$*"
export PATH=/root/go/pkg/mod/golang.org/toolchain@v0.0.1-go1.24.3.linux-amd64/bin:$PATH GOTOOLCHAIN=local GOFLAGS=-mod=mod GOPROXY=off GOSUMDB=off
S="$WT/SEEDED/$N"
cd "$WT" || exit 2
[ -f "$S/patch.diff" ] || { echo "no $S/patch.diff"; exit 2; }
DEMO_DST=$(head -1 "$S/where.txt" | tr -d ' \r\n')
git checkout -q -- . ; git clean -fdq -e SEEDED -e TASK.md; rm -f "$DEMO_DST"
git apply --check "$S/patch.diff" || { echo "PATCH DOES NOT APPLY"; exit 1; }
if git apply --numstat "$S/patch.diff" | awk '{print $3}' | grep -q '_test.go$'; then echo "PATCH TOUCHES TEST FILES"; exit 1; fi
git apply "$S/patch.diff"
B1=$(go build ./... 2>&1 | grep -v hdf5 | grep -v '^#' | grep -v '^ ' | grep -v compilation | head -5)
B2=$(go build -tags verif ./... 2>&1 | grep -v hdf5 | grep -v '^#' | grep -v '^ ' | grep -v compilation | head -5)
[ -n "$B1$B2" ] && { echo "BUILD PROBLEM: $B1 $B2"; }
SUITE=$(go test -vet=off -count=1 $(go list ./... 2>/dev/null | grep -v loadhdf5 | grep -v SEEDED) 2>&1 | grep -v "no test files" | grep -v hdf5 | grep -v '^ ' | grep -v '^#' | grep -v compilation | grep -v "^FAIL$")
echo "$SUITE" | grep -v "^ok" | head
if echo "$SUITE" | grep -q "^FAIL\|^---"; then SUITE_OK=false; else SUITE_OK=true; fi
cp "$S/demo_test.go" "$DEMO_DST"
PKG=./$(dirname "$DEMO_DST")
if go test -vet=off -count=1 -run 'TestSeeded' $PKG > /tmp/demo_with.$$ 2>&1; then WITH=pass; else WITH=fail; fi
echo "--- demo with the change (must fail): $WITH"; grep -E "^\s+.*_test.go:|^--- FAIL|panic:" /tmp/demo_with.$$ | head -5 | cut -c1-300
git checkout -q -- . ; git clean -fdq -e SEEDED -e TASK.md -e "$DEMO_DST"
if go test -vet=off -count=1 -run 'TestSeeded' $PKG > /tmp/demo_without.$$ 2>&1; then WITHOUT=pass; else WITHOUT=fail; fi
echo "--- demo without the change (must pass): $WITHOUT"; [ $WITHOUT = fail ] && tail -5 /tmp/demo_without.$$ | cut -c1-300
rm -f "$DEMO_DST" /tmp/demo_with.$$ /tmp/demo_without.$$
echo "RESULT id=$ID suite_passes_with_change=$SUITE_OK demo_with_change=$WITH demo_without_change=$WITHOUT where=$DEMO_DST"
if [ "$SUITE_OK" = true ] && [ "$WITH" = fail ] && [ "$WITHOUT" = pass ]; then
  mkdir -p /verif/seeded/$ID
  cp "$S/patch.diff" /verif/seeded/$ID/patch.diff
  cp "$S/demo_test.go" /verif/seeded/$ID/demo_test.go
  cp "$S/README.md" /verif/seeded/$ID/AGENT_README.md 2>/dev/null
  echo "$DEMO_DST" > /verif/seeded/$ID/where.txt
  echo "CONFIRMED -> /verif/seeded/$ID"
else
  echo "NOT CONFIRMED"; exit 1
fi
cd /verif
(cd "$WT" && git apply "$S/patch.diff")
for P in $PROP $MORE; do
  echo "=== $P --tier $TIER against $ID"
  VERIF_REPO=$WT VERIF_EVIDENCE_DIR=/tmp/semaverif-scratch-evidence/$ID ./check $P --tier $TIER > /tmp/seeded_eval.$ID.$P.log 2>&1
  echo "exit=$?"
  grep -E "^(HELD|VIOLATED|INCONCLUSIVE|BUILD|VIOLATION)|unlisted-signature" /tmp/seeded_eval.$ID.$P.log | cut -c1-300 | head -8
done
(cd "$WT" && git checkout -q -- . && git clean -fdq -e SEEDED -e TASK.md)
