#!/bin/bash
# usage: tools/seeded_try.sh <worktree> <Cxx> <seeded-id> <demo path relative to the worktree> [tier]
# development helper: packages an uncommitted seeded change left in a scratch worktree (source diff +
# demonstration test), confirms it with verify_seeded.sh and runs the registered check against it.
WT=$1; PROP=$2; ID=$3; DEMO=$4; TIER=${5:-quick}
cd "$WT" || exit 2
if [ ! -f SEEDED/patch.diff ]; then
  mkdir -p SEEDED
  git diff > SEEDED/patch.diff
  cp "$DEMO" SEEDED/demo_test.go
fi
cd /verif
tools/verify_seeded.sh "$WT" "$ID" "$DEMO" 2>&1 | tail -4
(cd "$WT" && git apply SEEDED/patch.diff)
echo "=== $PROP against $ID"
VERIF_REPO=$WT ./check $PROP --tier $TIER 2>&1 | grep -E "^(HELD|VIOLATED|INCONCLUSIVE|BUILD)|unlisted-signature" | cut -c1-260 | head -8
(cd "$WT" && git checkout -q -- .)
