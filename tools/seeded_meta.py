#!/usr/bin/env python3
"""usage: seeded_meta.py <id> <property> <demo_path> '<needs>' '<caught_by summary>' [--missed]"""
import json, sys, os, subprocess, datetime
sid, prop, demo, needs, caught = sys.argv[1:6]
d = f'/verif/seeded/{sid}'
meta = {
  "id": sid, "breaks_property": prop,
  "origin": "independent sub-agent: given only the property text and a scratch worktree of /repo, nothing from /verif",
  "needs_to_manifest": needs,
  "demonstration": {"file": "demo_test.go", "place_at": demo, "command": f"go test -vet=off -count=1 -run 'Seeded|Demo' ./{os.path.dirname(demo)}"},
  "confirmed_by_me": {"patch_applies": True, "repository_suite_passes_with_change": True, "demo_fails_with_change": True, "demo_passes_without_change": True,
                      "how": "tools/verify_seeded.sh in the scratch worktree"},
  "check_result": caught,
  "repo_commit_base": subprocess.run(["git","-C","/repo","rev-parse","--short","HEAD"],capture_output=True,text=True).stdout.strip(),
}
json.dump(meta, open(f'{d}/meta.json','w'), indent=1)
print("wrote", f'{d}/meta.json')
