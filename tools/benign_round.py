#!/usr/bin/env python3
"""usage: tools/benign_round.py <tag> <Cxx> [<Cxx> ...]
Negative controls: creates a scratch worktree /tmp/seed/<tag>-<Cxx> with a TASK.md asking a sub-agent for
changes to semadb that alter observable-but-unspecified behaviour while KEEPING the property true. The
checks must stay silent on them."""
import json, os, subprocess, sys
props = {json.loads(l)['id']: json.loads(l) for l in open('/verif/properties.jsonl')}
tag = sys.argv[1]
for pid in sys.argv[2:]:
    p = props[pid]
    wt = f'/tmp/seed/{tag}-{pid}'
    if not os.path.exists(wt):
        subprocess.check_call(['git', '-C', '/repo', 'worktree', 'add', '--detach', wt, 'HEAD'], stdout=subprocess.DEVNULL)
    task = f"""# Task: property-PRESERVING changes to Semafind/semadb (negative controls)

You work ONLY inside this directory: `{wt}` (a scratch git worktree of the Go project Semafind/semadb,
a multi-index hybrid vector search engine). Do not read or touch `/repo` or `/verif`, and do not look
for other material about this task elsewhere on the machine.

## Build recipe (offline sandbox; env does not persist between shell calls)

```
export PATH=/root/go/pkg/mod/golang.org/toolchain@v0.0.1-go1.24.3.linux-amd64/bin:$PATH GOTOOLCHAIN=local GOFLAGS=-mod=mod GOPROXY=off GOSUMDB=off
cd {wt}
go build ./... ; go build -tags verif ./...     # internal/loadhdf5 never builds (missing hdf5.h) - ignore it
go test -vet=off -count=1 $(go list ./... | grep -v loadhdf5 | grep -v SEEDED)   # the existing suite, 1-2 minutes
```
A few files are guarded by the build tag `verif` (test hooks): keep them compiling, do not change their exported names.

## The property

**{pid} - {p['title']}**

Statement: {p['statement']}

Quantifier: {p['quantifier']['text']}

Code it is anchored in: {', '.join(p['anchors']['files'])}

## What to produce

Someone has built an automatic checker for this property. We want to know whether it raises FALSE alarms.
Produce THREE different, independent changes to the non-test source (call them 1, 2, 3), each of which
- changes real behaviour or internals in a way an outside observer could notice or that alters executions
  (iteration / tie-breaking order among equal keys, internal id allocation order, which of several equally
  valid answers is returned, worker counts, batch / chunk / buffer sizes, lock granularity, eviction or
  unloading policy and timing, hash or encoding choices that the property leaves open, error texts and
  choice among allowed status codes, internal on-disk layout details not fixed by the statement, extra
  work done eagerly or lazily ...),
- but for which the property statement above REMAINS TRUE for every input, history, schedule and fault the
  quantifier covers. Argue this carefully: read the statement literally, it is what counts. Do not weaken
  anything the statement promises (exactness where it is promised, order by distance / score / sort keys,
  atomicity, isolation, progress ...). Pure renames, comments and dead code are NOT wanted: the change must
  alter what actually executes.
- compiles with and without `-tags verif`, and the whole existing test suite still passes unedited.
Prefer changes that are likely to trip a naive checker (one that compares with one fixed expected output,
assumes a particular internal order, timing or layout) while being perfectly legal.

For each change N leave in `{wt}/SEEDED/N/`:
- `patch.diff` - `git diff` of the source change only (applies to a clean checkout with `git apply`)
- `README.md`  - what changes observably, and the argument why the property still holds for all quantified cases.

Verify for each: patch applies on a clean tree, builds with both tag settings, whole suite passes. Leave the
tracked files reverted at the end (`git checkout -- .`), keep only SEEDED/. In your final answer give a
two-line summary per change.
"""
    open(os.path.join(wt, 'TASK.md'), 'w').write(task)
    print(wt)
