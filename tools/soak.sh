#!/bin/bash
# usage: tools/soak.sh <first-seed> <last-seed> <ids...> : quick tier at many seeds; prints only what is not HELD
A=$1; B=$2; shift 2
for seed in $(seq $A $B); do
  for id in "$@"; do
    out=$(VERIF_SEED=$seed ./check $id --tier quick 2>&1 | grep -v '"level":"info"')
    last=$(echo "$out" | grep -E '^(HELD|VIOLATED|INCONCLUSIVE|BUILD-FAILED)' | tail -1)
    case "$last" in HELD*) ;; *) echo "!! seed=$seed $id: $(echo "$last" | cut -c1-200)"; echo "$out" | grep -E "unlisted-signature|^VIOLATION|INCONCLUSIVE" | cut -c1-400 | head -6;; esac
  done
  echo "seed $seed done"
done
