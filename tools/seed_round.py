#!/usr/bin/env python3
"""usage: tools/seed_round.py <round-tag> <Cxx> [<Cxx> ...]
Creates a scratch git worktree of /repo under /tmp/seed/<round-tag>-<Cxx> and writes TASK.md into it:
the only thing a seeding sub-agent is given (property text, build recipe, deliverables). Nothing from
/verif except the text of the property goes into it."""
import json, os, subprocess, sys
props = {json.loads(l)['id']: json.loads(l) for l in open('/verif/properties.jsonl')}
avoid = {}
idx = '/verif/seeded'
for d in sorted(os.listdir(idx)):
    mp = os.path.join(idx, d, 'meta.json')
    if os.path.exists(mp):
        m = json.load(open(mp))
        avoid.setdefault(m['breaks_property'], []).append(m['needs_to_manifest'])
tag = sys.argv[1]
for pid in sys.argv[2:]:
    p = props[pid]
    wt = f'/tmp/seed/{tag}-{pid}'
    if not os.path.exists(wt):
        subprocess.check_call(['git', '-C', '/repo', 'worktree', 'add', '--detach', wt, 'HEAD'], stdout=subprocess.DEVNULL)
    av = ''.join('  - ' + a + '\n' for a in avoid.get(pid, [])) or '  (none)\n'
    task = f"""# Task: seed a realistic property-breaking change into Semafind/semadb

You work ONLY inside this directory: `{wt}` (a scratch git worktree of the Go project Semafind/semadb,
a multi-index hybrid vector search engine). Do not read or touch `/repo` or `/verif`, and do not look
for other material about this task elsewhere on the machine. Everything you need is in the source tree.

## Build recipe (offline sandbox; env does not persist between shell calls)

```
export PATH=/root/go/pkg/mod/golang.org/toolchain@v0.0.1-go1.24.3.linux-amd64/bin:$PATH GOTOOLCHAIN=local GOFLAGS=-mod=mod GOPROXY=off GOSUMDB=off
cd {wt}
go build ./... ; go build -tags verif ./...     # internal/loadhdf5 never builds (missing hdf5.h) - ignore it
go test -vet=off -count=1 $(go list ./... | grep -v loadhdf5)   # the existing suite, about 1-2 minutes
```
A few files are guarded by the build tag `verif` (test hooks). Your change must compile with and without that tag.

## The property (this is all you are told)

**{pid} - {p['title']}**

Statement: {p['statement']}

Quantifier: {p['quantifier']['text']}

Code it is anchored in: {', '.join(p['anchors']['files'])}

## What to produce

TWO different, independent changes to the non-test source of semadb (call them 1 and 2), each of which
- breaks the property above (some input / history / schedule / fault exists for which the statement becomes false),
- still compiles (with and without `-tags verif`) and leaves the WHOLE existing test suite passing, unedited,
- looks like something a developer could plausibly write: an optimisation, a refactor, a "simplification",
  an off-by-one, a dropped lock / flag / flush / check, a reordered pair of steps, a cache shortcut ...
  not sabotage keyed on magic values,
- needs something SPECIFIC to manifest: a particular interleaving, a crash or fault at a particular point, a
  multi-step sequence of operations, an unusual input or configuration, or two cooperating sites that each look
  fine alone. Changes that ordinary use would expose at once (every search wrong, every insert failing) are NOT wanted.
  Prefer subtle over blunt, and make 1 and 2 differ in mechanism and in the code they touch.

Ideas already used by someone else for this property - do NOT reuse them or close variants:
{av}
For each change N in (1, 2) leave these files in `{wt}/SEEDED/N/`:
- `patch.diff`  - `git diff` of the source change only (must apply to a clean checkout with `git apply`; no test files in it)
- `demo_test.go` - a Go test file demonstrating the break: it FAILS with the change and PASSES without it.
  Test function names must start with `TestSeeded`. It must be deterministic enough to fail on every run
  with the change (loop / retry inside the test if it depends on scheduling) and finish in under 2 minutes.
  It may be an internal (same-package) test.
- `where.txt` - one line: the path, relative to the repository root, at which demo_test.go has to be placed
  (for example `shard/seeded_demo_test.go`).
- `README.md` - what the change is, why it breaks the property, exactly what is needed for it to manifest, and
  why the existing tests do not notice.

Before you finish, verify all of it yourself for each change: apply the patch on a clean tree, run the whole
suite (must pass), run the demo (must fail), revert the patch, run the demo (must pass). Leave the worktree's
tracked files reverted to the clean state at the end (`git checkout -- .`), keep only the SEEDED/ directory.
In your final answer give, per change, a three-line summary: what was changed, what it needs to manifest,
and the exact `go test` command for the demo.
"""
    open(os.path.join(wt, 'TASK.md'), 'w').write(task)
    print(wt)
