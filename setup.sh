#!/bin/bash
# Builds the harness once (plain and -race) so that the Go build cache is warm. Offline.
HERE="$(cd "$(dirname "$0")" && pwd)"
TC=/root/go/pkg/mod/golang.org/toolchain@v0.0.1-go1.24.3.linux-amd64/bin
if [ -x "$TC/go" ]; then export PATH="$TC:$PATH"; export GOTOOLCHAIN=local; else export GOTOOLCHAIN=auto; fi
export GOFLAGS=-mod=mod GOPROXY=off GOSUMDB=off CGO_ENABLED=1
cd "$HERE/harness" || exit 1
T="$(mktemp -d /tmp/semaverif.setup.XXXXXX)"; trap 'rm -rf "$T"' EXIT
go build -tags verif -o "$T/a" ./cmd/semaverif || exit 1
go build -tags verif -race -o "$T/b" ./cmd/semaverif || exit 1
echo "setup ok"
