package props

import (
	"bytes"
	"encoding/json"
	"fmt"
	"math"
	"math/rand/v2"
	"runtime"
	"sort"
	"strconv"
	"strings"
	"sync/atomic"
	"time"

	"github.com/semafind/semadb/distance"
	"github.com/semafind/semadb/models"
	"github.com/vmihailenco/msgpack/v5"
	"semaverif/fw"
	"semaverif/httpx"
)

// C18: no request can crash the server; invalid input is refused without side effects.
type c18 struct{}

func init() { fw.Register(c18{}) }

func (c18) ID() string    { return "C18" }
func (c18) Level() string { return "exploration" }
func (c18) Rule() string {
	return "unit = one HTTP request against a live server (the worker process itself, so a fatal error kills it and is classified by the parent): (i) structure-aware mutation: valid request templates for every endpoint of the v1 and v2 API are mutated field by field - wrong JSON/msgpack type, missing, extra, null, NaN / +-Inf / 1e308 (msgpack), lengths 0/1/4096/4097, 1000-deep _and nesting, duplicate keys, reserved property names (_id, _and, *, empty, a..b) in schemas and documents, v1 requests on v2 collections and vice versa; (ii) random and bit-flipped bodies for both content types and header mutations. Universal oracle: the process stays alive and keeps answering, no 'panic recovered' log line, no 5xx, a 4xx leaves the API-visible state digest (collection list, shard point counts, documents of all known ids) unchanged, and no distance kernel is ever called with operands of different lengths (verif hook in package distance). A conservative classifier marks mutations that are certainly invalid (typed field of the wrong type, vector length != dimension anywhere in a query tree, non-uuid id, limits / search sizes / counts outside the documented ranges, unknown operator or index type, point above the plan's size): those must not be answered 2xx. Non-trivial = the request reached a handler (not rejected by the header middleware); distinct by (endpoint, mutation path, mutation class)."
}
func (c18) Assumptions() []string {
	return []string{"no unavailability is injected, so every 5xx is a server fault", "requests that are neither certainly valid nor certainly invalid are judged by the universal rules only", "resource exhaustion by huge bodies is out of scope (no size limit is promised); bodies stay below 1 MiB", "valid requests whose distances would not stay finite are not generated as 'valid'"}
}
func (c18) Floor(tier string) int {
	if tier == "thorough" {
		return 5000
	}
	return 3000
}
func (c18) Timeout(string) time.Duration { return 25 * time.Minute }
func (c18) Parallel(string) int          { return 8 }

func (c18) Cases(tier string, seed uint64) []fw.Case {
	n, rnd := 8, 400
	if tier == "thorough" {
		n, rnd = 48, 6000
	}
	cs := make([]fw.Case, n)
	for i := range cs {
		cs[i] = fw.Case{Seed: fw.CaseSeed(seed, "C18", i), Name: fmt.Sprintf("server%d", i), Params: map[string]any{"random": rnd, "msgpack": i%2 == 1, "slice": i / 2, "slices": n / 2}}
	}
	return cs
}

type c18tmpl struct {
	name     string
	method   string
	path     string
	body     any
	mutating bool
	// sink templates write to / read from a collection that may hold non-finite
	// numbers; everywhere else such mutations are not applied to writes, so that
	// the 5xx rule stays sharp for the other collections
	sink bool
}

type c18mut struct {
	path    string
	class   string // what was done
	body    any
	invalid bool // certainly invalid: must not be answered 2xx
	raw     []byte
}

func c18SchemaJSON() map[string]any {
	return map[string]any{
		"vec":  map[string]any{"type": "vectorVamana", "vectorVamana": map[string]any{"vectorSize": 4, "distanceMetric": "euclidean", "searchSize": 75, "degreeBound": 64, "alpha": 1.2}},
		"flat": map[string]any{"type": "vectorFlat", "vectorFlat": map[string]any{"vectorSize": 3, "distanceMetric": "cosine"}},
		"txt":  map[string]any{"type": "text", "text": map[string]any{"analyser": "standard"}},
		"s":    map[string]any{"type": "string", "string": map[string]any{"caseSensitive": false}},
		"n":    map[string]any{"type": "integer"},
		"f":    map[string]any{"type": "float"},
		"tags": map[string]any{"type": "stringArray", "stringArray": map[string]any{"caseSensitive": true}},
	}
}

func c18Point(id string, i int) map[string]any {
	if id == "" {
		p := c18Point("x", i)
		delete(p, "_id")
		return p
	}
	return map[string]any{"_id": id, "vec": []any{0.1 * float64(i%7), 0.2, -0.3, 0.5}, "flat": []any{0.6, 0.8, 0.0}, "txt": "gandalf the grey wizard", "s": "Apple", "n": i, "f": 1.5, "tags": []any{"red", "blue"}, "meta": map[string]any{"k": "v"}}
}

func c18Templates(ids []string) []c18tmpl {
	vq := map[string]any{"property": "vec", "vectorVamana": map[string]any{"vector": []any{0.1, 0.2, 0.3, 0.4}, "operator": "near", "searchSize": 75, "limit": 10,
		"filter": map[string]any{"property": "n", "integer": map[string]any{"value": 3, "operator": "greaterThan"}}}}
	fq := map[string]any{"property": "flat", "vectorFlat": map[string]any{"vector": []any{0.6, 0.8, 0.0}, "operator": "near", "limit": 5}}
	tq := map[string]any{"property": "txt", "text": map[string]any{"value": "wizard grey", "operator": "containsAny", "limit": 5, "weight": 0.5}}
	comp := map[string]any{"property": "_or", "_or": []any{vq, tq, map[string]any{"property": "_and", "_and": []any{fq, map[string]any{"property": "s", "string": map[string]any{"value": "a", "operator": "startsWith"}}}}}}
	return []c18tmpl{
		{name: "v2-create", method: "POST", path: "/v2/collections", body: map[string]any{"id": "scratch", "indexSchema": c18SchemaJSON()}, mutating: true},
		// index parameters of the quantisers (removed again right after it was accepted)
		{name: "v2-create-quantized", method: "POST", path: "/v2/collections", body: map[string]any{"id": "scratchq", "indexSchema": map[string]any{
			"bq": map[string]any{"type": "vectorFlat", "vectorFlat": map[string]any{"vectorSize": 4, "distanceMetric": "euclidean",
				"quantizer": map[string]any{"type": "binary", "binary": map[string]any{"threshold": 0.5, "triggerThreshold": 0, "distanceMetric": "hamming"}}}},
			"pq": map[string]any{"type": "vectorVamana", "vectorVamana": map[string]any{"vectorSize": 8, "distanceMetric": "euclidean", "searchSize": 75, "degreeBound": 64, "alpha": 1.3,
				"quantizer": map[string]any{"type": "product", "product": map[string]any{"numCentroids": 16, "numSubVectors": 2, "triggerThreshold": 1000}}}},
		}}, mutating: true},
		{name: "v2-list", method: "GET", path: "/v2/collections", body: nil, mutating: false},
		{name: "v2-get", method: "GET", path: "/v2/collections/base", body: nil, mutating: false},
		{name: "v2-insert", method: "POST", path: "/v2/collections/base/points", body: map[string]any{"points": []any{c18Point("", 1), c18Point("", 2)}}, mutating: true},
		{name: "v2-update", method: "PUT", path: "/v2/collections/base/points", body: map[string]any{"points": []any{map[string]any{"_id": ids[0], "n": 41, "vec": []any{0.5, 0.5, 0.5, 0.5}, "note": "_delete"}}}, mutating: true},
		{name: "v2-delete", method: "DELETE", path: "/v2/collections/base/points", body: map[string]any{"ids": []any{ids[1], "00000000-0000-4000-8000-00000000ffff"}}, mutating: true},
		{name: "v2-search-vamana", method: "POST", path: "/v2/collections/base/points/search", body: map[string]any{"query": vq, "select": []any{"n", "meta.k"}, "sort": []any{map[string]any{"property": "n", "descending": true}}, "offset": 1, "limit": 10}, mutating: false},
		{name: "v2-search-flat", method: "POST", path: "/v2/collections/base/points/search", body: map[string]any{"query": fq, "select": []any{"*"}, "limit": 10}, mutating: false},
		{name: "v2-search-text", method: "POST", path: "/v2/collections/base/points/search", body: map[string]any{"query": tq, "limit": 10}, mutating: false},
		{name: "v2-search-composite", method: "POST", path: "/v2/collections/base/points/search", body: map[string]any{"query": comp, "limit": 20}, mutating: false},
		{name: "v2-search-id", method: "POST", path: "/v2/collections/base/points/search", body: map[string]any{"query": map[string]any{"property": "_id", "stringArray": map[string]any{"value": []any{ids[2], ids[3]}, "operator": "containsAny"}}, "select": []any{"*"}, "limit": 10}, mutating: false},
		{name: "v2-search-filter", method: "POST", path: "/v2/collections/base/points/search", body: map[string]any{"query": map[string]any{"property": "f", "float": map[string]any{"value": 1, "operator": "inRange", "endValue": 2}}, "limit": 10}, mutating: false},
		{name: "v2-insert-sink", method: "POST", path: "/v2/collections/sink/points", body: map[string]any{"points": []any{c18Point("", 1)}}, mutating: true, sink: true},
		{name: "v2-update-sink", method: "PUT", path: "/v2/collections/sink/points", body: map[string]any{"points": []any{map[string]any{"_id": ids[6], "f": 2.5, "flat": []any{0.0, 1.0, 0.0}}}}, mutating: true, sink: true},
		{name: "v2-search-sink", method: "POST", path: "/v2/collections/sink/points/search", body: map[string]any{"query": fq, "select": []any{"*"}, "limit": 10}, sink: true},
		{name: "v2-delete-collection", method: "DELETE", path: "/v2/collections/scratch", mutating: true},
		{name: "v1-create", method: "POST", path: "/v1/collections", body: map[string]any{"id": "scratchv1", "vectorSize": 3, "distanceMetric": "euclidean"}, mutating: true},
		{name: "v1-list", method: "GET", path: "/v1/collections", body: nil, mutating: false},
		{name: "v1-get", method: "GET", path: "/v1/collections/legacy", body: nil, mutating: false},
		{name: "v1-insert", method: "POST", path: "/v1/collections/legacy/points", body: map[string]any{"points": []any{map[string]any{"vector": []any{0.1, 0.2, 0.3}, "metadata": map[string]any{"a": 1}}}}, mutating: true},
		{name: "v1-update", method: "PUT", path: "/v1/collections/legacy/points", body: map[string]any{"points": []any{map[string]any{"id": ids[4], "vector": []any{0.3, 0.2, 0.1}, "metadata": "m"}}}, mutating: true},
		{name: "v1-delete", method: "DELETE", path: "/v1/collections/legacy/points", body: map[string]any{"ids": []any{ids[5]}}, mutating: true},
		{name: "v1-search", method: "POST", path: "/v1/collections/legacy/points/search", body: map[string]any{"vector": []any{0.1, 0.2, 0.3}, "limit": 5}, mutating: false},
		{name: "v1-delete-collection", method: "DELETE", path: "/v1/collections/scratchv1", body: nil, mutating: true},
		// filters of every indexed type (their value arrays and operators get mutated like everything else)
		{name: "v2-search-tags", method: "POST", path: "/v2/collections/base/points/search", body: map[string]any{"query": map[string]any{"property": "tags", "stringArray": map[string]any{"value": []any{"red", "green"}, "operator": "containsAny"}}, "limit": 10}, mutating: false},
		{name: "v2-search-tags-in-and", method: "POST", path: "/v2/collections/base/points/search", body: map[string]any{"query": map[string]any{"property": "_and", "_and": []any{map[string]any{"property": "tags", "stringArray": map[string]any{"value": []any{"blue"}, "operator": "containsAll"}}, map[string]any{"property": "n", "integer": map[string]any{"value": 0, "operator": "greaterThanOrEquals"}}}}, "limit": 10}, mutating: false},
		{name: "v2-search-string", method: "POST", path: "/v2/collections/base/points/search", body: map[string]any{"query": map[string]any{"property": "s", "string": map[string]any{"value": "apple", "operator": "equals"}}, "limit": 10}, mutating: false},
		{name: "v2-search-flat-with-tags-filter", method: "POST", path: "/v2/collections/base/points/search", body: map[string]any{"query": map[string]any{"property": "flat", "vectorFlat": map[string]any{"vector": []any{0.6, 0.8, 0.0}, "operator": "near", "limit": 5, "filter": map[string]any{"property": "tags", "stringArray": map[string]any{"value": []any{"red"}, "operator": "containsAny"}}}}, "limit": 10}, mutating: false},
		// v1 requests inside v1's documented ranges on a collection whose parameters come from v2
		{name: "v1-search-v1compat-limit75", method: "POST", path: "/v1/collections/v1compat/points/search", body: map[string]any{"vector": []any{0.1, 0.2, 0.3}, "limit": 75}, mutating: false},
		{name: "v1-search-v1compat-limit31", method: "POST", path: "/v1/collections/v1compat/points/search", body: map[string]any{"vector": []any{0.3, 0.2, 0.1}, "limit": 31}, mutating: false},
		{name: "v1-search-v1compat-default", method: "POST", path: "/v1/collections/v1compat/points/search", body: map[string]any{"vector": []any{0.3, 0.2, 0.1}}, mutating: false},
		{name: "v1-get-v1compat", method: "GET", path: "/v1/collections/v1compat", body: nil, mutating: false},
		// API version crossings
		{name: "v1-get-on-v2-collection", method: "GET", path: "/v1/collections/base", body: nil, mutating: false},
		{name: "v1-search-on-v2-collection", method: "POST", path: "/v1/collections/base/points/search", body: map[string]any{"vector": []any{0.1, 0.2, 0.3, 0.4}, "limit": 5}, mutating: false},
		{name: "v1-insert-on-v2-collection", method: "POST", path: "/v1/collections/base/points", body: map[string]any{"points": []any{map[string]any{"vector": []any{0.1, 0.2, 0.3, 0.4}}}}, mutating: true},
		{name: "v2-search-on-v1-collection", method: "POST", path: "/v2/collections/legacy/points/search", body: map[string]any{"query": map[string]any{"property": "vector", "vectorVamana": map[string]any{"vector": []any{0.1, 0.2, 0.3}, "operator": "near", "searchSize": 75, "limit": 5}}, "select": []any{"*"}, "limit": 5}, mutating: false},
		{name: "v2-insert-on-v1-collection", method: "POST", path: "/v2/collections/legacy/points", body: map[string]any{"points": []any{map[string]any{"vector": []any{0.3, 0.3, 0.3}, "metadata": map[string]any{"x": 1}}}}, mutating: true},
	}
}

func deepCopy(v any) any {
	switch x := v.(type) {
	case map[string]any:
		m := make(map[string]any, len(x))
		for k, e := range x {
			m[k] = deepCopy(e)
		}
		return m
	case []any:
		s := make([]any, len(x))
		for i, e := range x {
			s[i] = deepCopy(e)
		}
		return s
	}
	return v
}

// setAt returns a copy of root with the value at path replaced (del removes the key).
func setAt(root any, path []any, val any, del bool) any {
	if len(path) == 0 {
		return val
	}
	switch x := root.(type) {
	case map[string]any:
		k := path[0].(string)
		m := make(map[string]any, len(x))
		for kk, e := range x {
			m[kk] = e
		}
		if len(path) == 1 && del {
			delete(m, k)
			return m
		}
		m[k] = setAt(x[k], path[1:], val, del)
		return m
	case []any:
		i := path[0].(int)
		s := append([]any{}, x...)
		if len(path) == 1 && del {
			return append(s[:i], s[i+1:]...)
		}
		s[i] = setAt(x[i], path[1:], val, del)
		return s
	}
	return root
}

func pathString(p []any) string {
	parts := make([]string, len(p))
	for i, e := range p {
		parts[i] = fmt.Sprint(e)
	}
	return strings.Join(parts, ".")
}

func bigVector(n int) []any {
	v := make([]any, n)
	for i := range v {
		v[i] = 0.01
	}
	return v
}

var wrongTypeValues = []any{"str", 12, 1.5, true, nil, []any{}, map[string]any{}, []any{1, "a"}, map[string]any{"a": 1}, -1, 0}

// mutations walks the body and yields mutated copies.
func mutations(t c18tmpl, useMsgpack bool) []c18mut {
	var out []c18mut
	if t.body == nil {
		return out
	}
	var walk func(node any, path []any)
	walk = func(node any, path []any) {
		ps := pathString(path)
		key := ""
		if len(path) > 0 {
			key = fmt.Sprint(path[len(path)-1])
		}
		add := func(class string, val any, del bool, invalid bool) {
			out = append(out, c18mut{path: ps, class: class, body: setAt(t.body, path, val, del), invalid: invalid})
		}
		if len(path) > 0 {
			add("delete", nil, true, false)
			for i, w := range wrongTypeValues {
				inv := false
				switch node.(type) {
				case string:
					// a typed string field given a number / bool / array / object
					if i >= 1 && i <= 3 || i >= 5 {
						inv = typedStringKey(key)
					}
				case float64, int:
					if i == 0 || i == 3 || i >= 5 && i <= 8 {
						inv = typedNumberKey(key)
					}
				}
				add(fmt.Sprintf("wrongtype%d", i), w, false, inv)
			}
		}
		switch x := node.(type) {
		case map[string]any:
			keys := make([]string, 0, len(x))
			for k := range x {
				keys = append(keys, k)
			}
			sort.Strings(keys)
			for _, k := range keys {
				walk(x[k], append(append([]any{}, path...), k))
			}
			for _, extra := range []string{"_id", "_and", "*", "", "a..b", "extra"} {
				if _, has := x[extra]; !has {
					out = append(out, c18mut{path: ps + "+" + extra, class: "extra-key", body: setAt(t.body, append(append([]any{}, path...), extra), "x", false)})
				}
			}
		case []any:
			for i := range x {
				if i < 3 {
					walk(x[i], append(append([]any{}, path...), i))
				}
			}
			isVec := key == "vector" || key == "vec" || key == "flat"
			for _, n := range []int{0, 1, 4096, 4097} {
				if isVec {
					add(fmt.Sprintf("len%d", n), bigVector(n), false, n != len(x) || n == 0)
				}
			}
			if isVec {
				add("len+1", append(append([]any{}, x...), 0.5), false, true)
				if len(x) > 1 {
					add("len-1", append([]any{}, x[:len(x)-1]...), false, true)
				}
				if useMsgpack {
					for _, f := range []float64{math.NaN(), math.Inf(1), math.Inf(-1), 1e308, -1e308} {
						v := append([]any{}, x...)
						v[0] = f
						add(fmt.Sprintf("special-float-%g", f), v, false, false)
					}
				} else {
					v := append([]any{}, x...)
					v[0] = 1e308
					add("1e308", v, false, false)
				}
			} else {
				add("empty-array", []any{}, false, key == "ids" || key == "points")
				add("array-of-ints", []any{1, 2, 3}, false, false)
			}
		case string:
			add("empty-string", "", false, key == "property" || key == "operator" || key == "type")
			add("long-string", strings.Repeat("A", 5000), false, key == "operator" || key == "type" || key == "_id" || key == "id" || key == "distanceMetric")
			for _, s := range []string{"_id", "_and", "*", "a..b", "nope", "near ", "\x00"} {
				add("string:"+s, s, false, (key == "operator" || key == "type" || key == "distanceMetric" || key == "analyser") && s != x)
			}
			if key == "_id" || (key == "id" && !strings.HasPrefix(t.name, "v1-create") && !strings.HasPrefix(t.name, "v2-create")) {
				add("non-uuid", "not-a-uuid", false, true)
			}
		case float64, int:
			for _, n := range []any{0, -1, 1, 24, 25, 75, 76, 100, 101, 4096, 4097, 1 << 31, 1 << 62, math.MaxInt64, math.MaxInt64 - 7, math.MinInt64, uint64(math.MaxUint64), 1 << 53, 1e308, -1e308, 0.5} {
				inv := false
				switch key {
				case "limit":
					f := toFloat(n)
					max := 100.0
					if len(path) >= 2 && fmt.Sprint(path[len(path)-2]) != "" && path[0] == "query" {
						max = 75
					}
					if strings.HasPrefix(t.name, "v1-search") {
						max = 75
						inv = f < 0 || f > max || f != math.Trunc(f)
					} else {
						inv = f < 1 || f > max || f != math.Trunc(f)
					}
				case "searchSize":
					f := toFloat(n)
					inv = f < 25 || f > 75 || f != math.Trunc(f)
				case "offset":
					inv = toFloat(n) < 0 || toFloat(n) != math.Trunc(toFloat(n))
				case "vectorSize":
					f := toFloat(n)
					inv = f < 1 || f > 4096 || f != math.Trunc(f)
				case "degreeBound":
					f := toFloat(n)
					inv = f < 32 || f > 64 || f != math.Trunc(f)
				}
				add(fmt.Sprintf("number:%v", n), n, false, inv)
			}
			if useMsgpack {
				// alpha has a documented range (1.1..1.5): a non-finite alpha is certainly invalid
				add("nan", math.NaN(), false, key == "alpha")
				add("+inf", math.Inf(1), false, key == "alpha")
				// the same as 32-bit floats: MessagePack decodes a float64 into a float32 field
				// with an error, so only these reach the float32 parameters (alpha, thresholds)
				add("nan32", float32(math.NaN()), false, key == "alpha")
				add("+inf32", float32(math.Inf(1)), false, key == "alpha")
			}
		}
	}
	walk(t.body, nil)
	if t.mutating && !t.sink {
		keep := out[:0]
		// a create request carries index parameters, not data: non-finite numbers stay in
		isCreate := strings.Contains(t.name, "-create")
		for _, m := range out {
			if !nonFiniteRisk(m.class) || isCreate && (strings.HasPrefix(m.class, "nan") || strings.HasPrefix(m.class, "+inf")) {
				keep = append(keep, m)
			}
		}
		out = keep
	}
	// whole-body mutations
	if q, ok := t.body.(map[string]any)["query"]; ok {
		deep := q
		for i := 0; i < 1000; i++ {
			deep = map[string]any{"property": "_and", "_and": []any{deep}}
		}
		out = append(out, c18mut{path: "query", class: "deep-nesting-1000", body: setAt(t.body, []any{"query"}, deep, false)})
		wide := make([]any, 300)
		for i := range wide {
			wide[i] = q
		}
		out = append(out, c18mut{path: "query", class: "wide-or-300", body: setAt(t.body, []any{"query"}, map[string]any{"property": "_or", "_or": wide}, false)})
	}
	if pts, ok := t.body.(map[string]any)["points"].([]any); ok && len(pts) > 0 {
		// point above the plan's size (2048 bytes)
		if pm, ok := pts[0].(map[string]any); ok {
			big := deepCopy(pm).(map[string]any)
			big["blob"] = strings.Repeat("z", 4000)
			out = append(out, c18mut{path: "points.0", class: "oversized-point", body: setAt(t.body, []any{"points", 0}, big, false), invalid: strings.HasPrefix(t.name, "v2-")})
		}
		many := make([]any, 101)
		for i := range many {
			many[i] = pts[0]
		}
		out = append(out, c18mut{path: "points", class: "101-points", body: setAt(t.body, []any{"points"}, many, false), invalid: strings.Contains(t.name, "update")})
	}
	// duplicate top-level key (raw JSON surgery)
	if !useMsgpack {
		if bs, err := json.Marshal(t.body); err == nil && len(bs) > 2 {
			if m, ok := t.body.(map[string]any); ok {
				for k, v := range m {
					kv, _ := json.Marshal(map[string]any{k: v})
					raw := append([]byte{}, bs[:len(bs)-1]...)
					raw = append(raw, ',')
					raw = append(raw, kv[1:]...)
					out = append(out, c18mut{path: k, class: "duplicate-key", raw: raw})
					break
				}
			}
		}
	}
	return out
}

func toFloat(n any) float64 {
	switch x := n.(type) {
	case int:
		return float64(x)
	case int64:
		return float64(x)
	case uint64:
		return float64(x)
	case float64:
		return x
	}
	return 0
}

func typedStringKey(k string) bool {
	switch k {
	case "property", "operator", "type", "distanceMetric", "analyser", "id":
		return true
	}
	return false
}

func typedNumberKey(k string) bool {
	switch k {
	case "limit", "offset", "searchSize", "vectorSize", "degreeBound":
		return true
	}
	return false
}

type c18srv struct {
	res     *fw.CaseResult
	node    *httpx.Node
	cl      *httpx.Client
	ids     []string
	lenViol atomic.Int64
	lastLen atomic.Value
	base    string // baseline digest
	// collections of the fixture (everything else was made by a mutated create request)
	fixtures map[string]bool
	panics   int64
}

func (s *c18srv) digest() string {
	var sb strings.Builder
	r := s.cl.Do("GET", "/v2/collections", nil)
	cols := []string{}
	if arr, ok := r.JSON["collections"].([]any); ok {
		for _, e := range arr {
			if m, ok := e.(map[string]any); ok {
				cols = append(cols, fmt.Sprint(m["id"]))
			}
		}
	}
	sort.Strings(cols)
	fmt.Fprintf(&sb, "list:%d:%v;", r.Status, cols)
	for _, c := range cols {
		g := s.cl.Do("GET", "/v2/collections/"+c, nil)
		fmt.Fprintf(&sb, "%s:%d:%v;", c, g.Status, g.JSON["shards"])
		if c != "base" && c != "legacy" {
			continue
		}
		rd := s.cl.Do("POST", "/v2/collections/"+c+"/points/search", map[string]any{
			"query": map[string]any{"property": "_id", "stringArray": map[string]any{"value": s.ids, "operator": "containsAny"}}, "select": []any{"*"}, "limit": 100})
		pts, _ := rd.JSON["points"].([]any)
		lines := []string{}
		for _, p := range pts {
			b, _ := json.Marshal(p)
			lines = append(lines, string(b))
		}
		sort.Strings(lines)
		fmt.Fprintf(&sb, "docs:%d:%s;", rd.Status, strings.Join(lines, "|"))
	}
	return fmt.Sprintf("%x", fw.Hash64(sb.String()))
}

// f32Fields converts the values of the parameters that are 32-bit floats in the API (alpha, weight,
// threshold) to float32: MessagePack keeps the width of a float, and the server refuses a 64-bit
// float for such a field, so a MessagePack client has to send them this way.
func f32Fields(node any) any {
	switch x := node.(type) {
	case map[string]any:
		out := make(map[string]any, len(x))
		for k, v := range x {
			if f, ok := v.(float64); ok && (k == "alpha" || k == "weight" || k == "threshold") {
				out[k] = float32(f)
			} else {
				out[k] = f32Fields(v)
			}
		}
		return out
	case []any:
		out := make([]any, len(x))
		for i, v := range x {
			out[i] = f32Fields(v)
		}
		return out
	}
	return node
}

func (s *c18srv) encode(body any, useMsgpack bool) ([]byte, string, bool) {
	if useMsgpack {
		var buf bytes.Buffer
		enc := msgpack.NewEncoder(&buf)
		if err := enc.Encode(f32Fields(body)); err != nil {
			return nil, "", false
		}
		return buf.Bytes(), "application/msgpack", true
	}
	b, err := json.Marshal(body)
	if err != nil {
		return nil, "", false // NaN/Inf cannot be sent as JSON
	}
	return b, "application/json", true
}

// send issues one request and applies the universal rules.
func (s *c18srv) send(t c18tmpl, desc string, raw []byte, ct string, headers map[string]string, invalid bool, reachedHandler bool) {
	if len(raw) > 1<<20 {
		return
	}
	var rd *bytes.Reader
	if raw != nil {
		rd = bytes.NewReader(raw)
	}
	lenBefore := s.lenViol.Load()
	var resp httpx.Response
	if rd != nil {
		resp = s.cl.DoRaw(t.method, t.path, rd, ct, headers)
	} else {
		resp = s.cl.DoRaw(t.method, t.path, nil, ct, headers)
	}
	s.res.Eval(reachedHandler, t.name, desc)
	s.res.Stat("requests", 1)
	witness := map[string]any{"endpoint": t.method + " " + t.path, "mutation": desc, "content_type": ct, "body": bodyPreview(raw)}
	if resp.Err != nil {
		// the server must keep answering
		ping := s.cl.Do("GET", "/v2/ping", nil)
		if ping.Err != nil {
			// A missed deadline alone is no verdict (the machine may be overloaded): the server lives
			// in this process, so look at what its handler goroutines are doing. It is a hang only if
			// the same handler goroutine sits in semadb code in two samples taken seconds apart AND
			// a further ping still goes unanswered; otherwise the request is counted as inconclusive.
			stuck, dump := c18StuckHandlers()
			if again := s.cl.Do("GET", "/v2/ping", nil); again.Err != nil && stuck != "" {
				s.res.Violate("unresponsive", "C18:unresponsive:"+t.name, fmt.Sprintf("%s %s: transport error %v, the server no longer answers ping (%v, %v) and a request handler stays inside %s\n%s", t.name, desc, resp.Err, ping.Err, again.Err, stuck, trimStacks(dump)), witness)
			} else {
				s.res.Inconclusive++
				s.res.Note("%s %s: request and ping timed out (%v) without a stuck handler goroutine (machine overloaded?)", t.name, desc, resp.Err)
			}
		} else {
			s.res.Stat("transport_errors_with_live_server", 1)
		}
		return
	}
	if p := httpx.Sink.Panics.Load(); p > s.panics {
		s.panics = p
		line, stack := httpx.Sink.Snapshot()
		s.res.Violate("panic-recovered", "C18:panic:"+t.name+":"+panicSite(stack), fmt.Sprintf("%s %s: the server logged a recovered panic (status %d): %s\n%s", t.name, desc, resp.Status, strings.TrimSpace(line), stack), witness)
	} else if resp.Status >= 500 && (nonFiniteRisk(desc) || t.sink) && strings.Contains(string(resp.Body), "unsupported value") {
		// the request carries huge / non-finite numbers: its distances do not stay
		// finite, and the statement judges valid requests only when they do
		s.res.Stat("exempt_5xx_for_non_finite_distances", 1)
	} else if resp.Status >= 500 {
		s.res.Violate("5xx", "C18:5xx:"+t.name+":"+errClassStr(string(resp.Body)), fmt.Sprintf("%s %s: answered %d %s", t.name, desc, resp.Status, trimBody(resp.Body)), witness)
	}
	if s.lenViol.Load() > lenBefore {
		s.res.Violate("length-mismatch-at-kernel", "C18:kernel-length:"+t.name, fmt.Sprintf("%s %s: a distance kernel was called with operands of different lengths (%v); status %d", t.name, desc, s.lastLen.Load(), resp.Status), witness)
	}
	if invalid && resp.Status >= 200 && resp.Status < 300 {
		s.res.Violate("invalid-accepted", "C18:invalid-accepted:"+t.name+":"+mutClass(desc), fmt.Sprintf("%s %s: the request is certainly invalid but was answered %d %s", t.name, desc, resp.Status, trimBody(resp.Body)), witness)
	}
	switch {
	case resp.Status >= 400 && resp.Status < 500 && t.mutating:
		if d := s.digest(); d != s.base {
			s.res.Violate("4xx-changed-state", "C18:4xx-side-effect:"+t.name, fmt.Sprintf("%s %s: answered %d %s but the stored state changed", t.name, desc, resp.Status, trimBody(resp.Body)), witness)
			s.base = d
		}
		s.res.Stat("digests_after_4xx", 1)
	case resp.Status >= 200 && resp.Status < 300 && t.mutating:
		if ((t.name == "v2-create" || t.name == "v1-create") && desc != "unmutated" || t.name == "v2-create-quantized") && s.fixtures != nil {
			// An accepted create request passed validation: the collection it made must be readable
			// (a request that passes validation is processed without a 5xx). It is then removed, so
			// that the next mutated create request is judged on its own and not answered "exists".
			for _, id := range s.listCols() {
				if s.fixtures[id] {
					continue
				}
				for _, path := range []string{"/v2/collections/" + id, "/v2/collections"} {
					if g := s.cl.Do("GET", path, nil); g.Status >= 500 {
						s.res.Violate("5xx", "C18:5xx-after-accepted-create:"+t.name+":"+errClassStr(string(g.Body)), fmt.Sprintf("%s %s was accepted (%d), afterwards GET %s answers %d %s", t.name, desc, resp.Status, path, g.Status, trimBody(g.Body)), witness)
					}
				}
				s.cl.Do("DELETE", "/v2/collections/"+id, nil)
				s.res.Stat("collections_made_by_mutated_create_requests", 1)
			}
		}
		s.base = s.digest()
	}
}

func (s *c18srv) listCols() []string {
	r := s.cl.Do("GET", "/v2/collections", nil)
	cols := []string{}
	if arr, ok := r.JSON["collections"].([]any); ok {
		for _, e := range arr {
			if m, ok := e.(map[string]any); ok {
				cols = append(cols, fmt.Sprint(m["id"]))
			}
		}
	}
	return cols
}

func nonFiniteRisk(desc string) bool {
	for _, m := range []string{"special-float", "1e+308", "1e308", "nan", "+inf", "fuzz "} {
		if strings.Contains(desc, m) {
			return true
		}
	}
	// a number of large magnitude inside a vector can make a distance overflow float32
	if i := strings.Index(desc, "number:"); i >= 0 {
		tok := desc[i+len("number:"):]
		if j := strings.IndexAny(tok, " @"); j >= 0 {
			tok = tok[:j]
		}
		if f, err := strconv.ParseFloat(tok, 64); err == nil && math.Abs(f) >= 1<<31 {
			return true
		}
	}
	return false
}

func bodyPreview(b []byte) string {
	if len(b) > 400 {
		return fmt.Sprintf("%q...(%d bytes)", b[:400], len(b))
	}
	return fmt.Sprintf("%q", b)
}

func panicSite(stack string) string {
	for _, ln := range strings.Split(strings.ReplaceAll(stack, `\n`, "\n"), "\n") {
		ln = strings.TrimSpace(ln)
		if strings.Contains(ln, "semafind/semadb/") && !strings.Contains(ln, "middleware") && !strings.HasPrefix(ln, "/") {
			if i := strings.Index(ln, "("); i > 0 {
				ln = ln[:i]
			}
			return strings.TrimPrefix(ln, "github.com/semafind/semadb/")
		}
	}
	return "unknown"
}

func errClassStr(s string) string {
	s = uuidRe.ReplaceAllString(s, "<uuid>")
	s = digitsRe.ReplaceAllString(s, "N")
	s = strings.TrimSpace(s)
	if len(s) > 100 {
		s = s[:100]
	}
	return s
}

func mutClass(desc string) string {
	if i := strings.Index(desc, " "); i > 0 {
		return desc[:i]
	}
	return desc
}

func (c18) RunCase(c fw.Case, env *fw.Env) *fw.CaseResult {
	res := fw.NewResult()
	httpx.InstallSink()
	plans := map[string]models.UserPlan{"EVE": {Name: "eve", MaxCollections: 6, MaxCollectionPointCount: 5000, MaxPointSize: 2048}}
	nodes, err := httpx.StartCluster(env.Dir, 1, httpx.Options{Plans: plans, MaxCacheSize: []int64{0, 50000}[c.Idx%2]})
	if err != nil {
		res.Note("server: %v", err)
		res.Inconclusive++
		return res
	}
	defer nodes[0].Stop()
	rng := rand.New(rand.NewPCG(c.Seed, 18))
	useMsgpack := c.Bool("msgpack", false)
	s := &c18srv{res: res, node: nodes[0], cl: httpx.NewClient(nodes[0].HTTPAddr, "eve", "EVE")}
	hook := func(kernel string, lx, ly int) {
		s.lenViol.Add(1)
		s.lastLen.Store(fmt.Sprintf("%s kernel: %d vs %d", kernel, lx, ly))
	}
	distance.VerifLenMismatch.Store(&hook)
	// the hook must be live: prove it with a deliberate mismatch (reads stay in bounds)
	if fn, err := distance.GetFloatDistanceFn(models.DistanceEuclidean); err == nil {
		fn([]float32{1, 2}, []float32{1, 2, 3})
		if s.lenViol.Load() != 1 {
			res.Note("the distance length hook did not fire on a deliberate mismatch")
			res.Inconclusive++
			return res
		}
		s.lenViol.Store(0)
	}
	for i := 0; i < 40; i++ {
		s.ids = append(s.ids, fmt.Sprintf("%08x-1111-4000-8000-%012x", rng.Uint32(), i))
	}
	// ---- fixtures
	if r := s.cl.Do("POST", "/v2/collections", map[string]any{"id": "base", "indexSchema": c18SchemaJSON()}); r.Status != 200 {
		res.Note("fixture base: %d %s", r.Status, trimBody(r.Body))
		res.Inconclusive++
		return res
	}
	pts := []any{}
	for i := 0; i < 30; i++ {
		pts = append(pts, c18Point(s.ids[i], i))
	}
	if r := s.cl.Do("POST", "/v2/collections/base/points", map[string]any{"points": pts}); r.Status != 200 {
		res.Note("fixture points: %d %s", r.Status, trimBody(r.Body))
		res.Inconclusive++
		return res
	}
	if r := s.cl.Do("POST", "/v2/collections", map[string]any{"id": "sink", "indexSchema": c18SchemaJSON()}); r.Status != 200 {
		res.Note("fixture sink: %d %s", r.Status, trimBody(r.Body))
		res.Inconclusive++
		return res
	}
	s.cl.Do("POST", "/v2/collections/sink/points", map[string]any{"points": []any{c18Point(s.ids[6], 6)}})
	if r := s.cl.Do("POST", "/v1/collections", map[string]any{"id": "legacy", "vectorSize": 3, "distanceMetric": "euclidean"}); r.Status != 200 {
		res.Note("fixture legacy: %d %s", r.Status, trimBody(r.Body))
		res.Inconclusive++
		return res
	}
	v1pts := []any{}
	for i := 0; i < 10; i++ {
		v1pts = append(v1pts, map[string]any{"id": s.ids[30+i], "vector": []any{0.1 * float64(i), 0.2, 0.3}, "metadata": map[string]any{"i": i}})
	}
	s.cl.Do("POST", "/v1/collections/legacy/points", map[string]any{"points": v1pts})
	// a collection made through v2 that looks like a v1 collection (a vamana index on "vector") but with
	// parameters v1 would never choose: v1 requests on it pass v1's validation and must be served
	if r := s.cl.Do("POST", "/v2/collections", map[string]any{"id": "v1compat", "indexSchema": map[string]any{
		"vector": map[string]any{"type": "vectorVamana", "vectorVamana": map[string]any{"vectorSize": 3, "distanceMetric": "euclidean", "searchSize": 30, "degreeBound": 32, "alpha": 1.1}}}}); r.Status == 200 {
		pts := []any{}
		for i := 0; i < 40; i++ {
			pts = append(pts, map[string]any{"vector": []any{0.05 * float64(i), 0.2, 0.3}, "metadata": map[string]any{"i": i}})
		}
		s.cl.Do("POST", "/v2/collections/v1compat/points", map[string]any{"points": pts})
	}
	s.base = s.digest()
	s.fixtures = map[string]bool{}
	for _, id := range s.listCols() {
		s.fixtures[id] = true
	}
	// ---- the unmutated templates must work (sanity of the generator, and the
	// API crossings are requests that pass validation)
	templates := c18Templates(s.ids)
	for _, t := range templates {
		raw, ct, ok := s.encode(t.body, useMsgpack)
		if t.body == nil {
			raw, ct, ok = nil, "", true
		}
		if !ok {
			continue
		}
		s.send(t, "unmutated", raw, ct, nil, false, true)
		if len(res.Violations) > 25 {
			return res
		}
	}
	// ---- schemas that pass validation must be usable: every later request on
	// such a collection is a request that passes validation
	if c.Int("slice", 0)%2 == 0 {
		pq := func(dim int, metric string, sub int) map[string]any {
			return map[string]any{"type": "vectorFlat", "vectorFlat": map[string]any{"vectorSize": dim, "distanceMetric": metric,
				"quantizer": map[string]any{"type": "product", "product": map[string]any{"numCentroids": 4, "numSubVectors": sub, "triggerThreshold": 1000}}}}
		}
		odd := []struct {
			id     string
			schema map[string]any
			vec    []any
		}{
			{"pqodd", map[string]any{"v": pq(5, "euclidean", 2)}, []any{0.1, 0.2, 0.3, 0.4, 0.5}},
			{"pqhav", map[string]any{"v": pq(2, "haversine", 2)}, []any{10.0, 20.0}},
			{"binhav", map[string]any{"v": map[string]any{"type": "vectorVamana", "vectorVamana": map[string]any{"vectorSize": 2, "distanceMetric": "haversine", "searchSize": 75, "degreeBound": 64, "alpha": 1.2,
				"quantizer": map[string]any{"type": "binary", "binary": map[string]any{"triggerThreshold": 0, "distanceMetric": "hamming"}}}}}, []any{10.0, 20.0}},
			{"emptyname", map[string]any{"": map[string]any{"type": "integer"}, "a..b": map[string]any{"type": "string", "string": map[string]any{"caseSensitive": true}}, "_id": map[string]any{"type": "integer"}}, nil},
		}
		for _, o := range odd {
			ct := c18tmpl{name: "v2-create-" + o.id, method: "POST", path: "/v2/collections", body: map[string]any{"id": o.id, "indexSchema": o.schema}, mutating: true}
			raw, ctype, _ := s.encode(ct.body, false)
			before := len(res.Violations)
			resp := s.cl.Do("POST", "/v2/collections", ct.body)
			_ = raw
			_ = ctype
			if resp.Status != 200 {
				// refused at creation: fine (4xx), nothing more to ask
				if resp.Status >= 500 {
					s.send(ct, "odd-schema", raw, ctype, nil, false, true)
				}
				continue
			}
			s.base = s.digest()
			point := map[string]any{"note": "x"}
			if o.vec != nil {
				point["v"] = o.vec
			} else {
				point[""] = 5
				point["_id"] = "0b0b0b0b-0000-4000-8000-000000000001"
			}
			for _, t := range []c18tmpl{
				{name: "v2-insert-" + o.id, method: "POST", path: "/v2/collections/" + o.id + "/points", body: map[string]any{"points": []any{point}}, mutating: true},
				{name: "v2-get-" + o.id, method: "GET", path: "/v2/collections/" + o.id},
			} {
				raw, ctype, _ := s.encode(t.body, false)
				if t.body == nil {
					raw, ctype = nil, ""
				}
				s.send(t, "schema-that-passed-validation", raw, ctype, nil, false, true)
			}
			if o.vec != nil {
				t := c18tmpl{name: "v2-search-" + o.id, method: "POST", path: "/v2/collections/" + o.id + "/points/search", body: map[string]any{"query": map[string]any{"property": "v", map[bool]string{true: "vectorVamana", false: "vectorFlat"}[o.id == "binhav"]: map[string]any{"vector": o.vec, "operator": "near", "limit": 5, "searchSize": 75}}, "limit": 5}}
				raw, ctype, _ := s.encode(t.body, false)
				s.send(t, "schema-that-passed-validation", raw, ctype, nil, false, true)
			}
			s.cl.Do("DELETE", "/v2/collections/"+o.id, nil)
			s.base = s.digest()
			_ = before
		}
	}
	// ---- stray parameter blocks: a property of one index type that also carries the (unvalidated,
	// ignored) parameter block of another type with a different dimension. Whatever the server does
	// with the creation, the dimension of the index is the one of its declared type: a vector of the
	// stray length is certainly invalid, and no later search may reach a distance kernel with operands
	// of different lengths.
	if c.Int("slice", 0)%2 == 1 {
		vam := func(dim int) map[string]any {
			return map[string]any{"vectorSize": dim, "distanceMetric": "euclidean", "searchSize": 75, "degreeBound": 64, "alpha": 1.2}
		}
		flat := func(dim int) map[string]any { return map[string]any{"vectorSize": dim, "distanceMetric": "euclidean"} }
		for _, o := range []struct {
			id, typ string
			prop    map[string]any
		}{
			{"strayf", "vectorFlat", map[string]any{"type": "vectorFlat", "vectorFlat": flat(3), "vectorVamana": vam(2)}},
			{"strayv", "vectorVamana", map[string]any{"type": "vectorVamana", "vectorVamana": vam(3), "vectorFlat": flat(2)}},
			{"strayf5", "vectorFlat", map[string]any{"type": "vectorFlat", "vectorFlat": flat(3), "vectorVamana": vam(5), "string": map[string]any{"caseSensitive": true}}},
		} {
			resp := s.cl.Do("POST", "/v2/collections", map[string]any{"id": o.id, "indexSchema": map[string]any{"v": o.prop}})
			if resp.Status >= 500 {
				ct := c18tmpl{name: "v2-create-" + o.id, method: "POST", path: "/v2/collections", body: map[string]any{"id": o.id, "indexSchema": map[string]any{"v": o.prop}}, mutating: true}
				raw, ctype, _ := s.encode(ct.body, false)
				s.send(ct, "stray-parameter-block", raw, ctype, nil, false, true)
			}
			if resp.Status != 200 {
				continue
			}
			s.base = s.digest()
			s.res.Stat("collections_with_stray_parameter_blocks", 1)
			stray := []any{0.25, 0.5}
			if o.id == "strayf5" {
				stray = []any{0.1, 0.2, 0.3, 0.4, 0.5}
			}
			right := []any{0.1, 0.2, 0.3}
			pt := func(id string, v []any) map[string]any {
				return map[string]any{"points": []any{map[string]any{"_id": id, "v": v}}}
			}
			ins := func(desc, id string, v []any, invalid bool) {
				t := c18tmpl{name: "v2-insert-" + o.id, method: "POST", path: "/v2/collections/" + o.id + "/points", body: pt(id, v), mutating: true}
				raw, ctype, _ := s.encode(t.body, false)
				s.send(t, desc, raw, ctype, nil, invalid, true)
				s.base = s.digest()
			}
			ins("stray-block:right-length-insert", "0d0d0d0d-0000-4000-8000-000000000001", right, false)
			ins("stray-block:vector-of-the-stray-length", "0d0d0d0d-0000-4000-8000-000000000002", stray, true)
			upd := c18tmpl{name: "v2-update-" + o.id, method: "PUT", path: "/v2/collections/" + o.id + "/points", body: pt("0d0d0d0d-0000-4000-8000-000000000001", stray), mutating: true}
			raw, ctype, _ := s.encode(upd.body, false)
			s.send(upd, "stray-block:update-with-the-stray-length", raw, ctype, nil, true, true)
			s.base = s.digest()
			for _, qv := range [][]any{right, stray} {
				opts := map[string]any{"vector": qv, "operator": "near", "limit": 5}
				if o.typ == "vectorVamana" {
					opts["searchSize"] = 75
				}
				t := c18tmpl{name: "v2-search-" + o.id, method: "POST", path: "/v2/collections/" + o.id + "/points/search", body: map[string]any{"query": map[string]any{"property": "v", o.typ: opts}, "limit": 5}}
				raw, ctype, _ := s.encode(t.body, false)
				s.send(t, fmt.Sprintf("stray-block:search-with-length-%d", len(qv)), raw, ctype, nil, len(qv) != 3, true)
			}
			s.cl.Do("DELETE", "/v2/collections/"+o.id, nil)
			s.base = s.digest()
		}
	}
	// ---- a msgpack client can carry non-finite numbers in non-vector fields; the
	// write passes validation, so reading the point back passes validation too
	if c.Int("slice", 0)%2 == 1 {
		if r := s.cl.Do("POST", "/v2/collections", map[string]any{"id": "nanf", "indexSchema": map[string]any{"f": map[string]any{"type": "float"}, "n": map[string]any{"type": "integer"}}}); r.Status == 200 {
			mc := *s.cl
			mc.Msgpack = true
			wr := mc.Do("POST", "/v2/collections/nanf/points", map[string]any{"points": []any{
				map[string]any{"_id": "0c0c0c0c-0000-4000-8000-000000000001", "n": int64(1), "extra": math.NaN()},
				map[string]any{"_id": "0c0c0c0c-0000-4000-8000-000000000002", "n": int64(2), "f": math.Inf(1)},
				map[string]any{"_id": "0c0c0c0c-0000-4000-8000-000000000003", "n": int64(3), "f": 1.5},
			}})
			s.res.Stat("non_finite_document_writes", 1)
			if wr.Status != 200 {
				s.res.Note("non-finite write answered %d %s", wr.Status, trimBody(wr.Body))
			}
			// the same in nested maps, arrays and through the update path; whatever is accepted must be
			// readable afterwards (the reads below), whatever is refused must be refused with a 4xx
			mc.Do("POST", "/v2/collections/nanf/points", map[string]any{"points": []any{
				map[string]any{"_id": "0c0c0c0c-0000-4000-8000-000000000004", "n": int64(4), "f": 2.5},
				map[string]any{"_id": "0c0c0c0c-0000-4000-8000-000000000005", "n": int64(5), "nested": map[string]any{"deep": map[string]any{"x": math.Inf(-1)}}},
			}})
			mc.Do("POST", "/v2/collections/nanf/points", map[string]any{"points": []any{
				map[string]any{"_id": "0c0c0c0c-0000-4000-8000-000000000006", "n": int64(6), "arr": []any{1.0, math.NaN(), "x"}},
			}})
			// ... and as 32-bit floats inside arrays (untyped lists, float32 slices, lists of lists)
			mc.Do("POST", "/v2/collections/nanf/points", map[string]any{"points": []any{
				map[string]any{"_id": "0c0c0c0c-0000-4000-8000-000000000007", "n": int64(7), "arr32": []any{float32(1), float32(math.NaN())}},
			}})
			mc.Do("POST", "/v2/collections/nanf/points", map[string]any{"points": []any{
				map[string]any{"_id": "0c0c0c0c-0000-4000-8000-000000000008", "n": int64(8), "f32s": []float32{1, float32(math.Inf(1))}, "nested": map[string]any{"l": []any{[]any{float32(math.NaN())}}}},
			}})
			for _, body := range []map[string]any{
				{"points": []any{map[string]any{"_id": "0c0c0c0c-0000-4000-8000-000000000003", "arr32": []any{"a", float32(math.Inf(-1))}}}},
				{"points": []any{map[string]any{"_id": "0c0c0c0c-0000-4000-8000-000000000004", "extra": float32(math.NaN())}}},
				{"points": []any{map[string]any{"_id": "0c0c0c0c-0000-4000-8000-000000000004", "nested": map[string]any{"v": []any{math.Inf(1)}}}}},
			} {
				ur := mc.Do("PUT", "/v2/collections/nanf/points", body)
				if ur.Status >= 500 {
					s.res.Violate("5xx", "C18:5xx:v2-update-nanf:"+errClassStr(string(ur.Body)), fmt.Sprintf("update carrying a non-finite number answered %d %s", ur.Status, trimBody(ur.Body)), nil)
				}
			}
			wr.Status = 200 // always read back: points 3 and 4 are stored in any case
			if wr.Status == 200 {
				for _, sel := range [][]any{{"*"}, {"n"}, {"extra"}, {"f"}, {"arr32"}, {"f32s", "nested"}} {
					t := c18tmpl{name: "v2-search-nanf", method: "POST", path: "/v2/collections/nanf/points/search", body: map[string]any{"query": map[string]any{"property": "n", "integer": map[string]any{"value": 0, "operator": "greaterThan"}}, "select": sel, "limit": 10}}
					raw, ctype, _ := s.encode(t.body, false)
					s.send(t, fmt.Sprintf("read-back-after-non-finite-write select=%v", sel), raw, ctype, nil, false, true)
				}
			}
			s.cl.Do("DELETE", "/v2/collections/nanf", nil)
			s.base = s.digest()
		}
	}
	// ---- (i) structure-aware mutations; servers share the work by slices
	slice, slices := c.Int("slice", 0), c.Int("slices", 1)
	n := 0
	for ti, t := range templates {
		for mi, m := range mutations(t, useMsgpack) {
			n++
			if (ti*7+mi)%slices != slice {
				continue
			}
			var raw []byte
			ct := "application/json"
			ok := true
			if m.raw != nil {
				raw = m.raw
			} else {
				raw, ct, ok = s.encode(m.body, useMsgpack)
			}
			if !ok {
				continue
			}
			s.send(t, m.class+" @"+m.path, raw, ct, nil, m.invalid, true)
			if len(res.Violations) > 25 {
				return res
			}
		}
	}
	res.Stat("structured_mutations_total", int64(n))
	// ---- (ii) random / bit-flipped bodies and header mutations
	for i := 0; i < c.Int("random", 400); i++ {
		t := templates[rng.IntN(len(templates))]
		if t.mutating && !t.sink && (strings.Contains(t.name, "insert") || strings.Contains(t.name, "update")) {
			// fuzzed writes go to the sink collection: a bit flip can turn a number
			// into a huge one that is then stored and makes later distances infinite
			for _, cand := range templates {
				if cand.sink && cand.mutating && strings.Contains(cand.name, "insert") == strings.Contains(t.name, "insert") {
					t = cand
				}
			}
		}
		raw, ct, ok := s.encode(t.body, rng.IntN(2) == 0)
		if !ok || raw == nil {
			raw = []byte("{}")
			ct = "application/json"
		}
		raw = append([]byte{}, raw...)
		desc := ""
		switch rng.IntN(6) {
		case 0:
			for j := 0; j < 1+rng.IntN(4); j++ {
				raw[rng.IntN(len(raw))] ^= 1 << rng.IntN(8)
			}
			desc = "bitflip"
		case 1:
			raw = raw[:rng.IntN(len(raw)+1)]
			desc = "truncate"
		case 2:
			raw = make([]byte, rng.IntN(200))
			for j := range raw {
				raw[j] = byte(rng.UintN(256))
			}
			desc = "random-bytes"
		case 3:
			ct = []string{"text/plain", "", "application/xml", "application/json; charset=utf-8", "APPLICATION/JSON", "application/msgpack"}[rng.IntN(6)]
			desc = "content-type:" + ct
		case 4:
			p := rng.IntN(len(raw) + 1)
			ins := []string{"[[[[[[[[[[[[[[[[", "{\"a\":", "\"\\u0000\"", "1e999", "-", "\x00\xff", "null"}[rng.IntN(7)]
			raw = append(raw[:p], append([]byte(ins), raw[p:]...)...)
			desc = "insert:" + ins
		default:
			desc = "headers"
		}
		var headers map[string]string
		reached := true
		if desc == "headers" {
			switch rng.IntN(4) {
			case 0:
				headers = map[string]string{"X-Plan-Id": "NOPE"}
				reached = false
			case 1:
				headers = map[string]string{"X-User-Id": strings.Repeat("u", 3000)}
			case 2:
				headers = map[string]string{"X-User-Id": ""}
				reached = false
			default:
				headers = map[string]string{"Content-Length": "5"}
			}
			if _, bad := headers["Content-Length"]; bad {
				headers = nil
			}
		}
		s.send(t, "fuzz "+desc, raw, ct, headers, false, reached)
		if len(res.Violations) > 25 {
			return res
		}
	}
	// the server is still healthy
	if r := s.cl.Do("GET", "/v2/ping", nil); r.Status != 200 {
		res.Violate("unresponsive", "C18:ping-after-run", fmt.Sprintf("ping after the run: %d %v", r.Status, r.Err), nil)
	}
	res.Sample(map[string]any{"templates": len(templates), "content_type": map[bool]string{true: "msgpack", false: "json"}[useMsgpack], "structured_mutations": n, "random_requests": c.Int("random", 0)})
	var nilHook *func(string, int, int)
	distance.VerifLenMismatch.Store(nilHook)
	return res
}

// c18StuckHandlers samples all goroutines twice, three seconds apart, and names the innermost semadb
// frame of a goroutine that serves an HTTP request (net/http.(*conn).serve below it) and shows the
// same semadb frames in both samples.
func c18StuckHandlers() (string, string) {
	sample := func() (map[string]string, string) {
		buf := make([]byte, 4<<20)
		n := runtime.Stack(buf, true)
		out := map[string]string{}
		for _, b := range strings.Split(string(buf[:n]), "\n\n") {
			if !strings.Contains(b, "net/http.(*conn).serve") || !strings.Contains(b, "github.com/semafind/semadb/") {
				continue
			}
			hdr := strings.SplitN(b, "\n", 2)[0]
			id := strings.Fields(hdr)
			if len(id) < 2 {
				continue
			}
			var frames []string
			for _, l := range strings.Split(b, "\n") {
				if strings.HasPrefix(l, "github.com/semafind/semadb/") {
					frames = append(frames, strings.SplitN(l, "(", 2)[0])
				}
			}
			out[id[1]] = strings.Join(frames, "<")
		}
		return out, string(buf[:n])
	}
	a, _ := sample()
	time.Sleep(3 * time.Second)
	b, dump := sample()
	for id, fr := range a {
		if b[id] == fr && fr != "" {
			return strings.SplitN(fr, "<", 2)[0], dump
		}
	}
	return "", dump
}
