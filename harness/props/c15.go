package props

import (
	"errors"
	"fmt"
	"math/rand/v2"
	"path/filepath"
	"sort"
	"sync"
	"sync/atomic"
	"time"

	"github.com/google/uuid"
	"github.com/semafind/semadb/cluster"
	"github.com/semafind/semadb/models"
	"semaverif/fw"
	"semaverif/gen"
	"semaverif/httpx"
	"semaverif/model"
)

// C15: inserted points are partitioned over shards within limits; quotas are enforced.
type c15 struct{}

func init() { fw.Register(c15{}) }

func (c15) ID() string    { return "C15" }
func (c15) Level() string { return "exploration" }
func (c15) Rule() string {
	return "two units. (a) distribution case = (existing shard fill levels, batch, per-shard count and size limits) fed to the real distributePoints under the side condition that a single point fits an empty shard: ranges must be non-empty, contiguous, in batch order, cover every point exactly once, keep existing+range within the count limit and the running size within the size limit, and a new shard may only be created when no listed shard can take the next point. (b) request on a live single-server ClusterNode with per-shard limits 1..50: sequences of 30 insert requests and collection creations around the plan's quotas (quota-1, quota, quota+1): after every request the sum of per-shard point counts must equal previous total + batch - points of failed ranges, no shard above the limit, every id readable exactly once, and a refused request (quota reached) must leave counts, shard list and collection list unchanged. Non-trivial = at least two shards involved or a limit is hit exactly; distinct by hash of the inputs."
}
func (c15) Assumptions() []string {
	return []string{"a single point always fits into an empty shard (otherwise distributePoints loops by design)", "the size limit is compared as the code documents it: existing size + len(data)+len(id) per point"}
}
func (c15) Floor(tier string) int {
	if tier == "thorough" {
		return 200000
	}
	return 5000
}
func (c15) Timeout(string) time.Duration { return 20 * time.Minute }
func (c15) Parallel(string) int          { return 16 }

func (c15) Cases(tier string, seed uint64) []fw.Case {
	var cs []fw.Case
	nd, per, nl := 8, 3000, 8
	if tier == "thorough" {
		nd, per, nl = 32, 40000, 48
	}
	for i := 0; i < nd; i++ {
		cs = append(cs, fw.Case{Seed: fw.CaseSeed(seed, "C15d", i), Name: fmt.Sprintf("distribute%d", i), Params: map[string]any{"what": "distribute", "n": per}})
	}
	for i := 0; i < nl; i++ {
		cs = append(cs, fw.Case{Seed: fw.CaseSeed(seed, "C15l", i), Name: fmt.Sprintf("live%d", i), Params: map[string]any{"what": "live", "requests": 30}})
	}
	// ranges of many hundred points on one shard: a range that is reported as failed must have left
	// nothing behind, however the shard server writes it
	for i := 0; i < max(2, nl/8); i++ {
		cs = append(cs, fw.Case{Seed: fw.CaseSeed(seed, "C15b", i), Name: fmt.Sprintf("bigrange%d", i), Params: map[string]any{"what": "bigrange"}})
	}
	return cs
}

func (c15) RunCase(c fw.Case, env *fw.Env) *fw.CaseResult {
	res := fw.NewResult()
	rng := rand.New(rand.NewPCG(c.Seed, 15))
	switch c.Str("what", "") {
	case "distribute":
		c15Distribute(res, rng, c.Int("n", 1000))
	case "bigrange":
		c15BigRange(res, rng, c, env)
	default:
		c15Live(res, rng, c, env)
	}
	return res
}

func c15Distribute(res *fw.CaseResult, rng *rand.Rand, n int) {
	for it := 0; it < n; it++ {
		maxCount := int64(1 + rng.IntN(12))
		if rng.IntN(4) == 0 {
			maxCount = int64(1 + rng.IntN(200))
		}
		maxPoint := 16 + 10 + rng.IntN(200) // id + data
		maxSize := int64(maxPoint + rng.IntN(2000))
		if rng.IntN(3) == 0 {
			maxSize = 1 << 40
		}
		nShards := rng.IntN(5)
		shards := make([]cluster.VerifShardInfo, nShards)
		for i := range shards {
			shards[i] = cluster.VerifShardInfo{Id: fmt.Sprintf("s%d", i), PointCount: rng.Int64N(maxCount + 2), Size: rng.Int64N(maxSize/2 + 1)}
			switch rng.IntN(5) {
			case 0:
				shards[i].PointCount = maxCount // exactly full
			case 1:
				shards[i].PointCount = maxCount - 1
			case 2:
				shards[i].PointCount = 0
				shards[i].Size = 0
			}
			if maxSize < 1<<40 && rng.IntN(6) == 0 {
				shards[i].Size = maxSize // exactly at the size limit
			}
		}
		nPoints := rng.IntN(40)
		if rng.IntN(10) == 0 {
			nPoints = 0
		}
		points := make([]models.Point, nPoints)
		for i := range points {
			points[i] = models.Point{Id: uuid.New(), Data: make([]byte, 1+rng.IntN(maxPoint-16))}
		}
		created := 0
		createdAt := []int{}
		orig := append([]cluster.VerifShardInfo{}, shards...)
		got, err := cluster.VerifDistributePoints(shards, points, maxSize, maxCount, func() (string, error) {
			created++
			createdAt = append(createdAt, created)
			return fmt.Sprintf("new%d", created), nil
		})
		desc := func() string {
			return fmt.Sprintf("shards=%v points=%d (sizes %v) maxShardSize=%d maxShardPointCount=%d -> assignments=%v created=%d", orig, nPoints, pointSizes(points), maxSize, maxCount, got, created)
		}
		if err != nil {
			res.Violate("distribute-error", "C15:distribute-error", desc()+": "+err.Error(), nil)
			continue
		}
		// order of shards: listed ones then created ones
		all := append([]cluster.VerifShardInfo{}, orig...)
		for i := 1; i <= created; i++ {
			all = append(all, cluster.VerifShardInfo{Id: fmt.Sprintf("new%d", i)})
		}
		type rg struct {
			id    string
			s, e  int
			order int
		}
		var ranges []rg
		known := map[string]int{}
		for i, sh := range all {
			known[sh.Id] = i
		}
		bad := false
		for id, r := range got {
			oi, ok := known[id]
			if !ok {
				res.Violate("partition", "C15:unknown-shard", desc()+": assignment to a shard that neither existed nor was created: "+id, nil)
				bad = true
				continue
			}
			ranges = append(ranges, rg{id, r[0], r[1], oi})
		}
		if bad {
			continue
		}
		sort.Slice(ranges, func(i, j int) bool { return ranges[i].s < ranges[j].s })
		pos := 0
		hitExactly := false
		for _, r := range ranges {
			if r.e <= r.s {
				res.Violate("partition", "C15:empty-range", desc()+fmt.Sprintf(": empty or inverted range %v for %s", [2]int{r.s, r.e}, r.id), nil)
				bad = true
			}
			if r.s != pos {
				res.Violate("partition", "C15:gap-or-overlap", desc()+fmt.Sprintf(": range of %s starts at %d, previous range ended at %d", r.id, r.s, pos), nil)
				bad = true
			}
			// which shard takes which part of the batch is not fixed by the statement (contiguous ranges
			// that cover the id-sorted batch exactly once are), so the order of the shards is not judged
			pos = r.e
			sh := all[r.order]
			cnt := sh.PointCount + int64(r.e-r.s)
			size := sh.Size
			for _, p := range points[r.s:min(r.e, len(points))] {
				size += int64(len(p.Data) + len(p.Id))
			}
			if cnt > maxCount {
				res.Violate("limit", "C15:count-limit", desc()+fmt.Sprintf(": shard %s would hold %d points, limit %d", r.id, cnt, maxCount), nil)
				bad = true
			}
			if size > maxSize {
				res.Violate("limit", "C15:size-limit", desc()+fmt.Sprintf(": shard %s would reach size %d, limit %d", r.id, size, maxSize), nil)
				bad = true
			}
			if cnt == maxCount || size == maxSize {
				hitExactly = true
			}
		}
		if pos != len(points) && !bad {
			res.Violate("partition", "C15:not-covered", desc()+fmt.Sprintf(": points %d..%d are assigned to no shard", pos, len(points)), nil)
			bad = true
		}
		// a new shard only when no listed shard could take the next point: with
		// shards filled in order, creating k shards is justified iff each created
		// shard (except possibly the last) received points, and the listed shards
		// before it could not take the point that went to the created one
		if !bad && created > 0 {
			for i := 1; i <= created; i++ {
				id := fmt.Sprintf("new%d", i)
				r, ok := got[id]
				if !ok {
					res.Violate("needless-shard", "C15:needless-shard", desc()+fmt.Sprintf(": shard %s was created but received no points", id), nil)
					continue
				}
				// the point of the created shard's range that borders the range of the shard filled just
				// before it (batches may be consumed front to back or back to front)
				need := int64(-1)
				if prev := known[id] - 1; prev >= 0 {
					if rr, ok := got[all[prev].Id]; ok {
						switch {
						case rr[1] == r[0]:
							need = int64(len(points[r[0]].Data) + len(points[r[0]].Id))
						case rr[0] == r[1]:
							need = int64(len(points[r[1]-1].Data) + len(points[r[1]-1].Id))
						}
					} else {
						// the previous shard received nothing: it must have been unable to take either end
						a := int64(len(points[r[0]].Data) + len(points[r[0]].Id))
						b := int64(len(points[r[1]-1].Data) + len(points[r[1]-1].Id))
						need = max(a, b) // the direction of filling is open: only "could have taken either end" is judged
					}
				}
				if need < 0 {
					continue
				}
				// every earlier shard must be unable to take that first point after its own range
				for j := 0; j < known[id]; j++ {
					sh := all[j]
					cnt, size := sh.PointCount, sh.Size
					if rr, ok := got[sh.Id]; ok {
						cnt += int64(rr[1] - rr[0])
						for _, p := range points[rr[0]:rr[1]] {
							size += int64(len(p.Data) + len(p.Id))
						}
					}
					// only the immediately preceding shard in fill order matters for
					// contiguity; a shard is skipped for good once it is full
					if j == known[id]-1 && cnt+1 <= maxCount && size+need <= maxSize {
						res.Violate("needless-shard", "C15:needless-shard", desc()+fmt.Sprintf(": shard %s was created although %s could still take the next point", id, sh.Id), nil)
					}
				}
			}
		}
		res.Eval(len(ranges) >= 2 || hitExactly, fmt.Sprint(orig), nPoints, maxSize, maxCount, fmt.Sprint(pointSizes(points)))
		if it == 0 {
			res.Sample(map[string]any{"case": desc()})
		}
	}
}

func pointSizes(points []models.Point) []int {
	out := make([]int, 0, len(points))
	for i, p := range points {
		if i >= 12 {
			break
		}
		out = append(out, len(p.Data)+16)
	}
	return out
}

func newSingleNode(dir string, port int, maxShardPoints int64, maxShardSize int64) (*cluster.ClusterNode, error) {
	cfg := cluster.ClusterNodeConfig{
		RootDir: dir, RpcHost: "localhost", RpcPort: port, RpcTimeout: 5, RpcRetries: 1,
		Servers:            []string{fmt.Sprintf("localhost:%d", port)},
		ShardManager:       cluster.ShardManagerConfig{RootDir: dir, ShardTimeout: 300, MaxCacheSize: -1},
		MaxShardSize:       maxShardSize,
		MaxShardPointCount: maxShardPoints,
		MaxSearchLimit:     75,
	}
	return cluster.NewNode(cfg)
}

func c15Live(res *fw.CaseResult, rng *rand.Rand, c fw.Case, env *fw.Env) {
	perShard := int64(1 + rng.IntN(50))
	ports, perr := httpx.FreePorts(1)
	if perr != nil {
		res.Note("ports: %v", perr)
		res.Inconclusive++
		return
	}
	node, err := newSingleNode(filepath.Join(env.Dir, "node"), ports[0], perShard, 1<<40)
	if err != nil {
		res.Note("node: %v", err)
		res.Inconclusive++
		return
	}
	defer node.Close()
	quotaPoints := int64(20 + rng.IntN(150))
	quotaCols := 2 + rng.IntN(3)
	plan := models.UserPlan{Name: "p", MaxCollections: quotaCols, MaxCollectionPointCount: quotaPoints, MaxPointSize: 1 << 20}
	schema := models.IndexSchema{"n": gen.Int(), "flat": gen.Flat(3, models.DistanceEuclidean, nil)}
	g := gen.New(c.Seed, schema)
	user := "alice"
	mkCol := func(id string) models.Collection {
		return models.Collection{UserId: user, Id: id, Replicas: 1, UserPlan: plan, IndexSchema: schema}
	}
	// ---- collection quota
	created := []string{}
	for i := 0; i < quotaCols+2; i++ {
		id := fmt.Sprintf("col%d", i)
		before, _ := node.ListCollections(user)
		err := node.CreateCollection(mkCol(id))
		after, _ := node.ListCollections(user)
		res.Eval(i >= quotaCols-1, "create", i, quotaCols)
		res.Stat("create_requests", 1)
		switch {
		case i < quotaCols:
			if err != nil {
				res.Violate("quota", "C15:create-refused-early", fmt.Sprintf("creating collection %d of %d allowed was refused: %v", i+1, quotaCols, err), nil)
			} else {
				created = append(created, id)
			}
			if len(after) != len(before)+1 {
				res.Violate("quota", "C15:create-list", fmt.Sprintf("after creating %s the user lists %d collections, %d before", id, len(after), len(before)), nil)
			}
		default:
			if !errors.Is(err, cluster.ErrQuotaReached) {
				res.Violate("quota", "C15:create-not-refused", fmt.Sprintf("creating collection %d with a quota of %d returned %v", i+1, quotaCols, err), nil)
			}
			if len(after) != len(before) {
				res.Violate("quota", "C15:refused-create-side-effect", fmt.Sprintf("a refused creation changed the collection list from %d to %d entries", len(before), len(after)), nil)
			}
		}
		// creating an existing one again is refused as existing, without side effects
		if i == 0 {
			if err := node.CreateCollection(mkCol(id)); !errors.Is(err, cluster.ErrExists) {
				res.Violate("quota", "C15:duplicate-create", fmt.Sprintf("creating %s twice returned %v", id, err), nil)
			}
		}
	}
	// ---- the same boundary approached by concurrent requests of one user: the quota decision and
	// the write of the record are one step, so of 6 x 3 simultaneous creations exactly `quota` succeed
	{
		user2 := "carol"
		var wg sync.WaitGroup
		var okN, refusedN, otherN atomic.Int64
		var firstOther atomic.Value
		for gi := 0; gi < 6; gi++ {
			wg.Add(1)
			go func(gi int) {
				defer wg.Done()
				for k := 0; k < 3; k++ {
					col := mkCol(fmt.Sprintf("c%dx%d", gi, k))
					col.UserId = user2
					switch err := node.CreateCollection(col); {
					case err == nil:
						okN.Add(1)
					case errors.Is(err, cluster.ErrQuotaReached):
						refusedN.Add(1)
					default:
						otherN.Add(1)
						firstOther.CompareAndSwap(nil, err.Error())
					}
				}
			}(gi)
		}
		wg.Wait()
		list, lerr := node.ListCollections(user2)
		res.Eval(true, "concurrent-create", quotaCols)
		res.Stat("concurrent_create_requests", 18)
		if lerr != nil || otherN.Load() > 0 {
			res.Violate("live-error", "C15:concurrent-create-error", fmt.Sprintf("concurrent creations: list error %v, %d unexpected errors (first: %v)", lerr, otherN.Load(), firstOther.Load()), nil)
		} else if int(okN.Load()) != quotaCols || len(list) != quotaCols {
			res.Violate("quota", "C15:concurrent-create-quota", fmt.Sprintf("18 concurrent creations under a quota of %d collections: %d reported success, %d were refused, the user now lists %d collections", quotaCols, okN.Load(), refusedN.Load(), len(list)), nil)
		}
	}
	// ---- the boundary after deletions: a user at the quota deletes a collection - the request is
	// repeated, as a retried or doubled call would be - and creates again: exactly one more creation
	// is accepted, whatever the repeated deletion answered
	{
		user3 := "dave"
		names := []string{}
		for i := 0; i < quotaCols; i++ {
			col := mkCol(fmt.Sprintf("d%d", i))
			col.UserId = user3
			if err := node.CreateCollection(col); err == nil {
				names = append(names, col.Id)
			}
		}
		if len(names) == quotaCols {
			victim := mkCol(names[0])
			victim.UserId = user3
			for k := 0; k < 2+quotaCols%2; k++ {
				node.DeleteCollection(victim)
			}
			okN := 0
			var lastErr error
			for i := 0; i < 3; i++ {
				col := mkCol(fmt.Sprintf("e%d", i))
				col.UserId = user3
				if err := node.CreateCollection(col); err == nil {
					okN++
				} else {
					lastErr = err
				}
			}
			list, _ := node.ListCollections(user3)
			res.Eval(true, "create-after-repeated-delete", quotaCols)
			res.Stat("create_after_repeated_delete_scenarios", 1)
			if okN != 1 || len(list) != quotaCols || !errors.Is(lastErr, cluster.ErrQuotaReached) {
				res.Violate("quota", "C15:create-after-repeated-delete", fmt.Sprintf("a user with %d of %d collections deleted one (the deletion was issued several times) and tried 3 creations: %d were accepted, the user now lists %d collections, the last refusal was %v", quotaCols, quotaCols, okN, len(list), lastErr), nil)
			}
		}
	}
	if len(created) == 0 {
		return
	}
	// ---- inserts around the point quota
	colId := created[0]
	m := model.New()
	total := int64(0)
	shardCounts := func(col models.Collection) (int64, []int64, error) {
		infos, err := node.GetShardsInfo(col)
		if err != nil {
			return 0, nil, err
		}
		var sum int64
		counts := []int64{}
		for _, si := range infos {
			sum += si.PointCount
			counts = append(counts, si.PointCount)
		}
		return sum, counts, nil
	}
	for req := 0; req < c.Int("requests", 30); req++ {
		col, err := node.GetCollection(user, colId)
		if err != nil {
			res.Violate("live-error", "C15:get-collection", err.Error(), nil)
			return
		}
		col.UserPlan = plan
		room := quotaPoints - total
		var n int
		switch rng.IntN(6) {
		case 0:
			n = int(room) // exactly fills the quota
		case 1:
			n = int(room) + 1 // one too many
		case 2:
			n = int(room) - 1
		default:
			n = 1 + rng.IntN(int(perShard)*3+2)
		}
		if n <= 0 {
			n = 1
		}
		if n > 400 {
			n = 400
		}
		pts := make([]model.Point, n)
		raw := make([]models.Point, n)
		for i := range pts {
			pts[i] = model.Point{Id: g.NewId(), Doc: g.Doc()}
			raw[i] = models.Point{Id: pts[i].Id, Data: model.Encode(pts[i].Doc)}
		}
		beforeShards := len(col.ShardIds)
		failed, err := node.InsertPoints(col, raw)
		colAfter, _ := node.GetCollection(user, colId)
		colAfter.UserPlan = plan
		sum, counts, cerr := shardCounts(colAfter)
		if cerr != nil {
			res.Violate("live-error", "C15:shards-info", cerr.Error(), nil)
			return
		}
		res.Stat("insert_requests", 1)
		res.Eval(len(colAfter.ShardIds) >= 2 || int64(n) >= room-1, "insert", total, n, perShard, quotaPoints)
		if int64(n) > room {
			if !errors.Is(err, cluster.ErrQuotaReached) {
				res.Violate("quota", "C15:insert-not-refused", fmt.Sprintf("inserting %d points into a collection holding %d with a quota of %d returned %v (failed ranges %v)", n, total, quotaPoints, err, failed), nil)
			}
			if sum != total || len(colAfter.ShardIds) != beforeShards {
				res.Violate("quota", "C15:refused-insert-side-effect", fmt.Sprintf("a refused insert changed the collection: total %d -> %d, shards %d -> %d", total, sum, beforeShards, len(colAfter.ShardIds)), nil)
			}
			res.Stat("inserts_refused_by_quota", 1)
			// make room again: delete a random part of the collection
			if room <= 1 && len(m.Docs) > 0 {
				ids := m.SortedIds()
				rng.Shuffle(len(ids), func(a, b int) { ids[a], ids[b] = ids[b], ids[a] })
				del := ids[:1+rng.IntN(len(ids))]
				for i := 0; i < len(del); i += 100 {
					chunk := del[i:min(i+100, len(del))]
					failedDel, err := node.DeletePoints(colAfter, chunk)
					if err != nil || len(failedDel) != 0 {
						res.Violate("live-error", "C15:delete", fmt.Sprintf("deleting %d stored points failed: %v %v", len(chunk), err, failedDel), nil)
						return
					}
				}
				m.Delete(del)
				sum2, _, _ := shardCounts(colAfter)
				if sum2 != int64(len(m.Docs)) {
					res.Violate("conservation", "C15:total-after-delete", fmt.Sprintf("after deleting %d points the shards hold %d, model %d", len(del), sum2, len(m.Docs)), nil)
				}
				total = sum2
				res.Stat("deletes_to_make_room", 1)
			}
			continue
		}
		if err != nil {
			res.Violate("live-error", "C15:insert-error:"+errClass(err), fmt.Sprintf("inserting %d points (total %d, quota %d) failed: %v", n, total, quotaPoints, err), nil)
			return
		}
		failedPts := 0
		for _, fr := range failed {
			failedPts += fr.End - fr.Start
		}
		if sum != total+int64(n-failedPts) {
			res.Violate("conservation", "C15:total", fmt.Sprintf("after inserting %d points (%d in failed ranges) the shards hold %d points in total, %d before (per shard %v, limit %d)", n, failedPts, sum, total, counts, perShard), nil)
		}
		for i, cnt := range counts {
			if cnt > perShard {
				res.Violate("limit", "C15:live-count-limit", fmt.Sprintf("shard %d holds %d points, per-shard maximum is %d (counts %v)", i, cnt, perShard, counts), nil)
			}
		}
		if failedPts == 0 {
			m.Insert(pts)
		}
		total = sum
		// every inserted id is found exactly once
		if failedPts == 0 && len(pts) > 0 {
			probe := pts[rng.IntN(len(pts))].Id
			hits, err := node.SearchPoints(colAfter, models.SearchRequest{Query: idQuery(probe), Limit: 10})
			if err != nil || len(hits) != 1 {
				res.Violate("placement", "C15:id-not-once", fmt.Sprintf("id %s inserted by the last request is found %d times (err %v)", probe, len(hits), err), nil)
			}
		}
		if req == 0 {
			res.Sample(map[string]any{"per_shard_limit": perShard, "point_quota": quotaPoints, "collection_quota": quotaCols, "first_batch": n, "counts": counts})
		}
	}
}

// c15BigRange: one shard takes thousands of points; a request whose range fails on the shard server (an id
// that is already stored, placed early / in the middle / late in the id-sorted batch) is reported as a failed
// range, and the total must then be the previous total plus the points of the ranges NOT reported as failed.
func c15BigRange(res *fw.CaseResult, rng *rand.Rand, c fw.Case, env *fw.Env) {
	ports, perr := httpx.FreePorts(1)
	if perr != nil {
		res.Inconclusive++
		return
	}
	node, err := newSingleNode(filepath.Join(env.Dir, "node"), ports[0], 6000, 1<<40)
	if err != nil {
		res.Note("node: %v", err)
		res.Inconclusive++
		return
	}
	defer node.Close()
	plan := models.UserPlan{Name: "p", MaxCollections: 2, MaxCollectionPointCount: 50000, MaxPointSize: 1 << 20}
	schema := models.IndexSchema{"n": gen.Int()}
	g := gen.New(c.Seed, schema)
	g.ExtraProb = 0
	col := models.Collection{UserId: "bigrange", Id: "c", Replicas: 1, UserPlan: plan, IndexSchema: schema}
	if err := node.CreateCollection(col); err != nil {
		res.Violate("live-error", "C15:create", err.Error(), nil)
		return
	}
	mk := func(n int) ([]model.Point, []models.Point) {
		pts := make([]model.Point, n)
		raw := make([]models.Point, n)
		for i := range pts {
			pts[i] = model.Point{Id: g.NewId(), Doc: g.Doc()}
			raw[i] = models.Point{Id: pts[i].Id, Data: model.Encode(pts[i].Doc)}
		}
		return pts, raw
	}
	total := func() (int64, error) {
		cc, err := node.GetCollection("bigrange", "c")
		if err != nil {
			return 0, err
		}
		cc.UserPlan = plan
		infos, err := node.GetShardsInfo(cc)
		if err != nil {
			return 0, err
		}
		var sum int64
		for _, si := range infos {
			sum += si.PointCount
		}
		return sum, nil
	}
	stored := []models.Point{}
	have := int64(0)
	for round := 0; round < 4; round++ {
		cc, _ := node.GetCollection("bigrange", "c")
		cc.UserPlan = plan
		n := 600 + rng.IntN(900)
		_, raw := mk(n)
		dupAt := -1
		if round > 0 && len(stored) > 0 {
			// an already stored id; the batch is sorted by id before it is split into ranges, so its
			// position is chosen after sorting
			sort.Slice(raw, func(a, b int) bool { return raw[a].Id.String() < raw[b].Id.String() })
			dupAt = []int{0, n / 2, n - 1, 500 + rng.IntN(n-500)}[rng.IntN(4)]
			// take a stored point whose id sorts near the wanted position: simply replace and re-sort
			raw[dupAt] = stored[rng.IntN(len(stored))]
		}
		failed, err := node.InsertPoints(cc, raw)
		res.Eval(true, "bigrange", round, n, dupAt)
		res.Stat("big_range_requests", 1)
		if err != nil {
			res.Violate("live-error", "C15:bigrange-insert-error:"+errClass(err), fmt.Sprintf("insert of %d points failed as a whole: %v", n, err), nil)
			return
		}
		failedPts := 0
		for _, fr := range failed {
			failedPts += fr.End - fr.Start
		}
		if dupAt >= 0 && failedPts == 0 {
			res.Violate("conservation", "C15:bigrange-duplicate-accepted", fmt.Sprintf("a batch of %d points containing an already stored id reported no failed range", n), nil)
		}
		now, terr := total()
		if terr != nil {
			res.Violate("live-error", "C15:bigrange-total", terr.Error(), nil)
			return
		}
		if now != have+int64(n-failedPts) {
			res.Violate("conservation", "C15:bigrange-total", fmt.Sprintf("round %d: %d points held, request of %d points (already stored id at sorted position %d) reported %d points in failed ranges: the shards now hold %d points, expected %d", round, have, n, dupAt, failedPts, now, have+int64(n-failedPts)), nil)
			return
		}
		if failedPts == 0 {
			stored = append(stored, raw...)
		}
		have = now
	}
}
