package props

import (
	"fmt"
	"math/rand/v2"
	"os"
	"path/filepath"
	"runtime"
	"sort"
	"strings"
	"sync"
	"sync/atomic"
	"time"

	"github.com/semafind/semadb/cluster"
	"github.com/semafind/semadb/models"
	"github.com/semafind/semadb/shard"
	"semaverif/fw"
	"semaverif/gen"
	"semaverif/model"
	"semaverif/sx"
)

// C12: shard loading, idle unloading and collection deletion are safe and deadlock-free.
type c12 struct{}

func init() { fw.Register(c12{}) }

func (c12) ID() string    { return "C12" }
func (c12) Level() string { return "exploration" }
func (c12) Rule() string {
	return "unit = one run (child process, race detector on): G in {2,8} request goroutines call ShardManager.DoWithShard on 1..3 shards of 1..2 collections with callbacks that do Info / insert / search of random duration, 1..2 deleter goroutines call DeleteCollectionShards, and the idle timer fires constantly (timeout 0 s, or 1 s with pauses so that it fires during requests and deletions), with shard backups enabled or disabled; with backups enabled a shard directory is made immutable around an idle unload at the end, so that the backup cannot be written; at the end a shard file is replaced by noise thirty times while requests for it and a deletion of its collection start together (loads that fail). Event log {enter/exit(shard pointer, directory), delete start/end}; refuted by: a storage call inside a callback failing or panicking because the shard was closed, two different shard objects for one directory with overlapping use, the shard file missing at callback exit (unless that callback's collection deletion overlapped... never while in use), a stall with a goroutine-dump deadlock witness, or a DoWithShard on every shard failing after the storm. Non-trivial = an unload and a deletion overlapped a request in that run; distinct by (seed, configuration)."
}
func (c12) Assumptions() []string {
	return []string{"'every call eventually returns' is restated as bounded progress: no stall with a deadlock witness, and fresh requests succeed after the storm; a watchdog expiry without witness is inconclusive", "a request may receive a clean error (shard already closed) - that is allowed by the statement"}
}
func (c12) Floor(tier string) int {
	if tier == "thorough" {
		return 150
	}
	return 15
}
func (c12) Timeout(string) time.Duration { return 4 * time.Minute }
func (c12) Parallel(string) int          { return 8 }

func (c12) Cases(tier string, seed uint64) []fw.Case {
	n := 24
	ops := 1500
	if tier == "thorough" {
		n = 240
		ops = 4000
	}
	cs := make([]fw.Case, n)
	for i := range cs {
		cs[i] = fw.Case{Seed: fw.CaseSeed(seed, "C12", i), Name: fmt.Sprintf("run%d", i), Params: map[string]any{
			"goroutines": []int{2, 8}[i%2], "shards": 1 + i%3, "collections": 1 + (i/3)%2, "deleters": 1 + (i/6)%2,
			"timeout": []int{0, 0, 1}[i%3], "backups": i%4 == 1, "ops": ops,
			// the cache manager is shared by all shards of a node: unlimited, or so small that the
			// index caches of the shards evict each other while requests, unloads and deletions run
			"cache_limit": []int{-1, 3000, -1, 20000}[i%4]}}
	}
	return cs
}

type c12event struct {
	t     int64
	kind  string // enter exit delstart delend
	dir   string
	shard string
	g     int
}

func (c12) RunCase(c fw.Case, env *fw.Env) *fw.CaseResult {
	res := fw.NewResult()
	rng := rand.New(rand.NewPCG(c.Seed, 12))
	root := filepath.Join(env.Dir, "root")
	cfg := cluster.ShardManagerConfig{RootDir: root, ShardTimeout: c.Int("timeout", 0), MaxCacheSize: int64(c.Int("cache_limit", -1))}
	sm := cluster.NewShardManager(cfg)
	schema := models.IndexSchema{"vec": gen.Vamana(4, models.DistanceEuclidean, 25, 32, 1.2, nil), "n": gen.Int()}
	nCol := c.Int("collections", 1)
	nShard := c.Int("shards", 1)
	cols := make([]models.Collection, nCol)
	for i := range cols {
		col := sx.Collection(schema, 0)
		col.UserId = "u"
		col.Id = fmt.Sprintf("col%d", i)
		if c.Bool("backups", false) {
			col.UserPlan.ShardBackupFrequency = 1
			col.UserPlan.ShardBackupCount = 2
		}
		for j := 0; j < nShard; j++ {
			col.ShardIds = append(col.ShardIds, fmt.Sprintf("00000000-0000-4000-8000-%012d", i*10+j))
		}
		cols[i] = col
	}
	start := time.Now()
	now := func() int64 { return time.Since(start).Nanoseconds() }
	var mu sync.Mutex
	var events []c12event
	rec := func(e c12event) {
		mu.Lock()
		events = append(events, e)
		mu.Unlock()
	}
	var completed atomic.Int64
	var cleanErrs, requests, deletions atomic.Int64
	// deletions started or finished so far, and deletions running right now
	var delMarks, delsInFlight atomic.Int64
	totalOps := int64(c.Int("ops", 1500))
	stop := make(chan struct{})
	var wg sync.WaitGroup
	G := c.Int("goroutines", 2)
	for gi := 0; gi < G; gi++ {
		wg.Add(1)
		go func(gi int) {
			defer wg.Done()
			g := gen.New(fw.SplitMix(c.Seed+uint64(gi)), schema)
			lr := rand.New(rand.NewPCG(c.Seed, uint64(gi)+100))
			for completed.Load() < totalOps {
				select {
				case <-stop:
					return
				default:
				}
				col := cols[lr.IntN(len(cols))]
				sid := col.ShardIds[lr.IntN(len(col.ShardIds))]
				dir := filepath.Join(root, "userCollections", col.UserId, col.Id, sid)
				requests.Add(1)
				marksBefore, inFlightBefore := delMarks.Load(), delsInFlight.Load()
				entered := false
				err := sm.DoWithShard(col, sid, func(s *shard.Shard) error {
					entered = true
					sp := fmt.Sprintf("%p", s)
					rec(c12event{now(), "enter", dir, sp, gi})
					defer func() {
						if p := recover(); p != nil {
							res.Violate("use-after-close", "C12:panic-in-callback", fmt.Sprintf("storage call inside a DoWithShard callback panicked (shard used after close?): %v", p), nil)
						}
						if _, err := os.Stat(filepath.Join(dir, "sharddb.bbolt")); err != nil {
							res.Violate("files-removed-in-use", "C12:file-missing-at-exit", fmt.Sprintf("at the end of a request the shard file %s is gone although the request still held the shard: %v", dir, err), nil)
						}
						rec(c12event{now(), "exit", dir, sp, gi})
					}()
					if _, err := s.Info(); err != nil {
						res.Violate("use-after-close", "C12:info-error:"+errClass(err), fmt.Sprintf("Info on the shard handed to a request failed: %v", err), nil)
						return nil
					}
					switch lr.IntN(4) {
					case 0:
						pts := []model.Point{{Id: g.NewId(), Doc: g.Doc()}, {Id: g.NewId(), Doc: g.Doc()}}
						if err := s.InsertPoints(sx.ToPoints(pts)); err != nil {
							res.Violate(closedKind(err), "C12:insert-error:"+errClass(err), fmt.Sprintf("insert on the shard handed to a request failed: %v", err), nil)
						}
					case 1:
						_, err := s.SearchPoints(models.SearchRequest{Query: models.Query{Property: "vec", VectorVamana: &models.SearchVectorVamanaOptions{Vector: g.Vector(4, models.DistanceEuclidean), Operator: models.OperatorNear, SearchSize: 25, Limit: 5}}, Limit: 5})
						if err != nil {
							res.Violate(closedKind(err), "C12:search-error:"+errClass(err), fmt.Sprintf("search on the shard handed to a request failed: %v", err), nil)
						}
					case 2:
						time.Sleep(time.Duration(lr.IntN(3000)) * time.Microsecond)
					}
					if _, err := s.Info(); err != nil {
						res.Violate("use-after-close", "C12:info-error-late:"+errClass(err), fmt.Sprintf("Info at the end of a request failed (shard closed during the request?): %v", err), nil)
					}
					return nil
				})
				if err != nil {
					if strings.Contains(err.Error(), "already closed") {
						cleanErrs.Add(1)
					} else if !entered && (inFlightBefore > 0 || delMarks.Load() != marksBefore) {
						// the shard could not be loaded while a deletion of collections was running or
						// started: the request never touched a shard and got an error - "a clean error"
						// (what the error says is not fixed; a negative control opened shard files outside
						// the manager's global lock and met the directory vanishing under MkdirAll)
						cleanErrs.Add(1)
						res.Stat("load_errors_while_a_deletion_ran", 1)
					} else {
						res.Violate("request-error", "C12:request-error:"+errClass(err), fmt.Sprintf("DoWithShard returned an unexpected error (callback entered: %v; deletions in flight at the call: %d; deletion marks %d -> %d): %v", entered, inFlightBefore, marksBefore, delMarks.Load(), err), nil)
					}
				}
				completed.Add(1)
				if c.Int("timeout", 0) == 1 && lr.IntN(200) == 0 {
					time.Sleep(1100 * time.Millisecond) // let the 1 s idle timer fire
				}
			}
		}(gi)
	}
	for di := 0; di < c.Int("deleters", 1); di++ {
		wg.Add(1)
		go func(di int) {
			defer wg.Done()
			lr := rand.New(rand.NewPCG(c.Seed, uint64(di)+900))
			for completed.Load() < totalOps {
				select {
				case <-stop:
					return
				default:
				}
				time.Sleep(time.Duration(200+lr.IntN(3000)) * time.Microsecond)
				col := cols[lr.IntN(len(cols))]
				rec(c12event{now(), "delstart", col.Id, "", -1 - di})
				// order matters for the readers (marks first, then in-flight): a request that reads
				// "none in flight" after this line still sees the mark change by the time it fails
				delsInFlight.Add(1)
				delMarks.Add(1)
				_, err := sm.DeleteCollectionShards(col)
				delMarks.Add(1)
				delsInFlight.Add(-1)
				rec(c12event{now(), "delend", col.Id, "", -1 - di})
				deletions.Add(1)
				if err != nil {
					res.Violate("delete-error", "C12:delete-error:"+errClass(err), fmt.Sprintf("DeleteCollectionShards failed: %v", err), nil)
				}
			}
		}(di)
	}
	// watchdog: progress must continue
	done := make(chan struct{})
	go func() { wg.Wait(); close(done) }()
	last := int64(-1)
	stalls := 0
	ticker := time.NewTicker(3 * time.Second)
	defer ticker.Stop()
loop:
	for {
		select {
		case <-done:
			break loop
		case <-ticker.C:
			cur := completed.Load() + deletions.Load()
			if cur == last {
				stalls++
				buf := make([]byte, 4<<20)
				n := runtime.Stack(buf, true)
				d1 := string(buf[:n])
				if wit := fw.DeadlockWitness(d1); wit != "" && stalls >= 2 {
					res.Violate("deadlock", "C12:deadlock:"+wit, fmt.Sprintf("no shard-manager call completed for %d s (after %d requests, %d deletions); goroutine dump shows every semadb goroutine blocked on locks: %s", 3*stalls, completed.Load(), deletions.Load(), wit), trimStacks(d1))
					c12Evidence(res, c, events, requests.Load(), deletions.Load(), cleanErrs.Load())
					// the process cannot unwind from a deadlock: report and leave
					return res
				}
				if stalls >= 20 {
					res.Inconclusive++
					res.Note("run stalled for 60 s without a deadlock witness")
					return res
				}
			} else {
				stalls = 0
			}
			last = cur
		}
	}
	close(stop)
	// a backup that fails: with backups enabled the idle timer backs a shard up before it closes it.
	// The shard directory is made immutable for that moment, so that the backup file cannot be created
	// (as on a full disk or without permission). The shard must still be closed and be loadable again -
	// that is what the loop below demands of every shard.
	if c.Bool("backups", false) {
		for _, col := range cols {
			sid := col.ShardIds[0]
			dir := filepath.Join(root, "userCollections", col.UserId, col.Id, sid)
			g := gen.New(c.Seed^0xbac, schema)
			err := sm.DoWithShard(col, sid, func(s *shard.Shard) error {
				return s.InsertPoints([]models.Point{{Id: g.NewId(), Data: model.Encode(g.Doc())}})
			})
			if err != nil {
				continue
			}
			if err := fw.SetImmutable(dir, true); err != nil {
				res.Stat("backup_failure_injection_unavailable", 1)
				break
			}
			// the last backup is at most a second old, the next one is due a second later
			time.Sleep(time.Duration(c.Int("timeout", 0))*time.Second + 2500*time.Millisecond)
			sm.DoWithShard(col, sid, func(s *shard.Shard) error { _, err := s.Info(); return err })
			time.Sleep(time.Duration(c.Int("timeout", 0))*time.Second + 1500*time.Millisecond)
			fw.SetImmutable(dir, false)
			res.Stat("idle_unloads_with_an_impossible_backup", 1)
		}
	}
	// loads that fail: the shard file of a collection is replaced by noise (a damaged file), requests for
	// it and a deletion of its collection are started together, thirty times. Every request must come
	// back with an error (it never gets a shard), every deletion must come back, nothing may hang.
	{
		col := cols[0]
		sid := col.ShardIds[0]
		dir := filepath.Join(root, "userCollections", col.UserId, col.Id, sid)
		noise := make([]byte, 32<<10)
		for i := range noise {
			noise[i] = byte(rng.Uint32())
		}
		for it := 0; it < 30; it++ {
			sm.DeleteCollectionShards(col)
			os.MkdirAll(dir, 0o755)
			os.WriteFile(filepath.Join(dir, "sharddb.bbolt"), noise, 0o644)
			var fwg sync.WaitGroup
			finished := make(chan struct{})
			for k := 0; k < 3; k++ {
				fwg.Add(1)
				go func() {
					defer fwg.Done()
					err := sm.DoWithShard(col, sid, func(s *shard.Shard) error {
						_, err := s.Info()
						return err
					})
					if err == nil {
						// the deletion came first and the shard was created afresh: fine
						res.Stat("loads_after_the_damaged_file_was_deleted", 1)
					} else {
						res.Stat("failed_loads_of_a_damaged_file", 1)
					}
				}()
			}
			fwg.Add(1)
			go func() {
				defer fwg.Done()
				time.Sleep(time.Duration(rng.IntN(300)) * time.Microsecond)
				sm.DeleteCollectionShards(col)
			}()
			go func() { fwg.Wait(); close(finished) }()
			select {
			case <-finished:
			case <-time.After(30 * time.Second):
				buf := make([]byte, 4<<20)
				n := runtime.Stack(buf, true)
				if wit := fw.DeadlockWitness(string(buf[:n])); wit != "" {
					res.Violate("deadlock", "C12:failed-load-deadlock:"+wit, "requests for a shard whose file is damaged and a deletion of its collection, started together, did not all return within 30 s: "+wit+"\n"+trimStacks(string(buf[:n])), nil)
				} else {
					res.Inconclusive++
				}
				return res
			}
		}
		sm.DeleteCollectionShards(col)
	}
	// after the storm: every shard can be loaded and used again
	for _, col := range cols {
		for _, sid := range col.ShardIds {
			okc := make(chan error, 1)
			go func() {
				okc <- sm.DoWithShard(col, sid, func(s *shard.Shard) error { _, err := s.Info(); return err })
			}()
			select {
			case err := <-okc:
				if err != nil && !strings.Contains(err.Error(), "already closed") {
					res.Violate("no-recovery", "C12:after-storm:"+errClass(err), fmt.Sprintf("after the storm a fresh request on %s/%s failed: %v", col.Id, sid, err), nil)
				} else if err != nil {
					// closed by the idle timer between load and use: retry once
					if err2 := sm.DoWithShard(col, sid, func(s *shard.Shard) error { _, err := s.Info(); return err }); err2 != nil && !strings.Contains(err2.Error(), "already closed") {
						res.Violate("no-recovery", "C12:after-storm:"+errClass(err2), fmt.Sprintf("after the storm a fresh request on %s/%s failed: %v", col.Id, sid, err2), nil)
					}
				}
			case <-time.After(30 * time.Second):
				buf := make([]byte, 4<<20)
				n := runtime.Stack(buf, true)
				if wit := fw.DeadlockWitness(string(buf[:n])); wit != "" {
					res.Violate("deadlock", "C12:after-storm-deadlock:"+wit, "after the storm a fresh request did not return within 30 s: "+wit, nil)
				} else {
					res.Inconclusive++
				}
				return res
			}
		}
	}
	c12Evidence(res, c, events, requests.Load(), deletions.Load(), cleanErrs.Load())
	_ = rng
	return res
}

// closedKind: a storage call failing because the database is closed means the
// shard was used after Close; any other failure inside a request is not one of
// the three clauses of the statement but still not "a request runs against an
// open shard or receives a clean error".
func closedKind(err error) string {
	e := err.Error()
	if strings.Contains(e, "database not open") || strings.Contains(e, "tx closed") || strings.Contains(e, "tx not writable") {
		return "use-after-close"
	}
	return "request-failed-on-open-shard"
}

func trimStacks(s string) string {
	// keep only goroutines with semadb frames
	var keep []string
	for _, b := range strings.Split(s, "\n\n") {
		if strings.Contains(b, "semafind/semadb/") {
			keep = append(keep, b)
		}
	}
	out := strings.Join(keep, "\n\n")
	if len(out) > 12000 {
		out = out[:12000] + "..."
	}
	return out
}

// c12Evidence runs the offline interval checks and counts what was observed.
func c12Evidence(res *fw.CaseResult, c fw.Case, events []c12event, requests, deletions, cleanErrs int64) {
	sort.SliceStable(events, func(i, j int) bool { return events[i].t < events[j].t })
	// double open: two different shard objects for one directory in use at the same time
	active := map[string]map[string]int{} // dir -> shard ptr -> count
	overlapWithDelete := false
	delActive := map[string]int{}
	unloadsSeen := map[string]map[string]bool{}
	for _, e := range events {
		switch e.kind {
		case "enter":
			if active[e.dir] == nil {
				active[e.dir] = map[string]int{}
				unloadsSeen[e.dir] = map[string]bool{}
			}
			for sp, n := range active[e.dir] {
				if sp != e.shard && n > 0 {
					res.Violate("double-open", "C12:double-open", fmt.Sprintf("directory %s is in use through two different shard objects at the same time (%s and %s)", e.dir, sp, e.shard), nil)
				}
			}
			active[e.dir][e.shard]++
			unloadsSeen[e.dir][e.shard] = true
			for col, n := range delActive {
				if n > 0 && strings.Contains(e.dir, "/"+col+"/") {
					overlapWithDelete = true
				}
			}
		case "exit":
			active[e.dir][e.shard]--
		case "delstart":
			delActive[e.dir]++
			for dir, m := range active {
				for _, n := range m {
					if n > 0 && strings.Contains(dir, "/"+e.dir+"/") {
						overlapWithDelete = true
					}
				}
			}
		case "delend":
			delActive[e.dir]--
		}
	}
	reloads := 0
	for _, m := range unloadsSeen {
		if len(m) > 1 {
			reloads += len(m) - 1
		}
	}
	res.Stat("requests", requests)
	res.Stat("deletions", deletions)
	res.Stat("clean_already_closed_errors", cleanErrs)
	res.Stat("shard_reloads_observed", int64(reloads))
	res.Stat("events", int64(len(events)))
	res.Eval(overlapWithDelete && reloads > 0, c.Seed, c.Name)
	res.Sample(map[string]any{"config": c.Params, "requests": requests, "deletions": deletions, "reloads": reloads, "request_overlapped_deletion": overlapWithDelete})
}
