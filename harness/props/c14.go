package props

import (
	"crypto/sha256"
	"fmt"
	"io"
	"math/rand/v2"
	"os"
	"path/filepath"
	"slices"
	"sort"
	"strings"
	"time"

	"github.com/google/uuid"
	"github.com/semafind/semadb/cluster"
	"github.com/semafind/semadb/models"
	bolt "go.etcd.io/bbolt"
	"semaverif/fw"
	"semaverif/gen"
	"semaverif/httpx"
	"semaverif/model"
)

// C14: start-up rebalancing moves every record and shard to its owner without loss.
type c14 struct{}

func init() { fw.Register(c14{}) }

func (c14) ID() string    { return "C14" }
func (c14) Level() string { return "fault_enumeration" }
func (c14) Rule() string {
	return "unit = one scenario on real node processes: an old server set (1..3 nodes) is loaded over HTTP (2..3 users, several collections, shard count forced by a small per-shard limit) and shut down cleanly; synthetic unreferenced shard files of 8 MiB-1, 8 MiB, 8 MiB+1, 16 MiB and 16 MiB+4096 bytes (chunk size 8 MiB) are planted; originals are hashed (SHA-256) and node databases read; then every node is started with the new server list (grow, shrink with the removed node started once to drain, replace) and a fault is injected at one point: receiver returns an error / exits at chunk k, sender exits before chunk k, exit between the two synchronisation phases - for k = 0, 1, 2. Nodes that exit during start-up are restarted (a restart IS a later synchronisation), up to 6 rounds; each fault fires once. Refuted by: at the end of any round a shard for which no node holds a complete checksum-identical copy, or a collection record held by no node; after the last round: a node that still cannot finish its synchronisation; a record on a node other than the owner of its user (or on none, or altered); a shard file on a node other than the owner of its id, or with a different checksum; a stored point not readable through every node. Non-trivial = a shard and a record actually had to move; distinct by (topology change, fault, file classes)."
}
func (c14) Assumptions() []string {
	return []string{"expected placement comes from the real RendezvousHash (its own properties are C13)", "no requests are served during synchronisation (the code documents that none are)", "a node exiting because a peer is not listening yet is part of normal start-up and is restarted by the harness"}
}
func (c14) Floor(tier string) int {
	if tier == "thorough" {
		return 40
	}
	return 6
}
func (c14) Timeout(string) time.Duration { return 12 * time.Minute }
func (c14) Parallel(string) int          { return 6 }

type c14Scenario struct {
	Old, New []int // node indexes
	Fault    string
	FaultOn  []int // nodes that get the fault (nil: every node, the marker makes it fire once)
	Users    int   // extra tenants beyond the default ones
	Synth    []int64
	Name     string
}

const chunk = int64(8 * 1024 * 1024)

func c14Scenarios(tier string) []c14Scenario {
	topo := []struct {
		name     string
		old, new []int
	}{
		{"grow-1to2", []int{0}, []int{0, 1}},
		{"grow-2to3", []int{0, 1}, []int{0, 1, 2}},
		{"shrink-3to2", []int{0, 1, 2}, []int{0, 1}},
		{"shrink-2to1", []int{0, 1}, []int{1}},
		{"replace-2", []int{0, 1}, []int{0, 2}},
		{"shrink-3to1", []int{0, 1, 2}, []int{2}},
		{"grow-1to3", []int{0}, []int{0, 1, 2}},  // one source, several destinations in one synchronisation
		{"handover-1to2", []int{0}, []int{1, 2}}, // everything leaves, to two destinations
	}
	faults := []string{"none", "recv-chunk:0:error", "recv-chunk:1:error", "recv-chunk:1:exit", "send-chunk:1:exit", "between-phases:0:exit", "recv-chunk:2:exit", "send-chunk:0:exit", "send-chunk:2:exit", "recv-chunk:2:error", "recv-chunk:0:exit",
		// the sender dies (or fails) after the destination confirmed and before it removed its own copy
		"records-confirmed:0:exit", "shard-confirmed:0:exit", "records-confirmed:0:error", "shard-confirmed:0:error",
		// the receiver is slow at one chunk: the call times out at the sender (these scenarios run with an
		// rpc timeout of 1 s), is carried out late all the same, and is sent again after the back-off - the
		// chunk arrives twice. The end-to-end checksum must notice, and a later round completes the move.
		"recv-chunk:1:sleep1600", "recv-chunk:2:sleep1600"}
	synth := [][]int64{{chunk + 1, 100}, {chunk - 1}, {chunk}, {2*chunk + 4096}, {2 * chunk}, {chunk + 1, 2 * chunk}}
	var out []c14Scenario
	n := 16
	if tier == "thorough" {
		n = len(topo) * len(faults)
	}
	for i := 0; i < n; i++ {
		t := topo[i%len(topo)]
		f := faults[(i/len(topo)+i)%len(faults)]
		if tier == "thorough" {
			f = faults[i/len(topo)]
		}
		out = append(out, c14Scenario{Old: t.old, New: t.new, Fault: f, Synth: synth[i%len(synth)], Name: t.name + "/" + f})
	}
	out = append(out, c14Scenario{Old: []int{0}, New: []int{0, 1}, Fault: "recv-chunk:1:sleep1600", Synth: []int64{2*chunk + 4096, chunk + 1, 2 * chunk}, Name: "grow-1to2/recv-chunk:1:sleep1600"})
	// a node that stays, gives records away to a new server AND is handed records by two leaving
	// servers in the same synchronisation; it pauses between reading its records and sending them,
	// so that the deliveries of the others are committed in between
	out = append(out, c14Scenario{Old: []int{0, 1, 2, 4}, New: []int{0, 3}, Fault: "records-read:0:sleep2500", FaultOn: []int{0}, Users: 14, Synth: []int64{100}, Name: "exchange-4to2/stayer-pauses-after-reading-records"})
	if tier == "thorough" {
		out = append(out, c14Scenario{Old: []int{0, 1, 2}, New: []int{0, 3, 4}, Fault: "records-read:0:sleep2500", FaultOn: []int{0, 1}, Users: 12, Synth: []int64{100}, Name: "exchange-3to3/two-nodes-pause-after-reading-records"})
		out = append(out, c14Scenario{Old: []int{0, 1}, New: []int{1, 2}, Fault: "records-read:0:sleep2500", FaultOn: []int{1}, Users: 12, Synth: []int64{100}, Name: "replace-one/stayer-pauses-after-reading-records"})
	}
	return out
}

func (c14) Cases(tier string, seed uint64) []fw.Case {
	scs := c14Scenarios(tier)
	cs := make([]fw.Case, len(scs))
	for i, sc := range scs {
		cs[i] = fw.Case{Seed: fw.CaseSeed(seed, "C14", i), Name: sc.Name, Params: map[string]any{"scenario": i}}
	}
	return cs
}

func fileHash(path string) (string, int64, error) {
	f, err := os.Open(path)
	if err != nil {
		return "", 0, err
	}
	defer f.Close()
	h := sha256.New()
	n, err := io.Copy(h, f)
	return fmt.Sprintf("%x", h.Sum(nil)), n, err
}

type shardFile struct {
	node  int
	path  string
	hash  string
	size  int64
	owner string // user/collection
}

// scanShards lists every sharddb.bbolt below the node directories.
func scanShards(dirs []string) map[string][]shardFile {
	out := map[string][]shardFile{}
	for ni, d := range dirs {
		filepath.Walk(filepath.Join(d, "userCollections"), func(p string, info os.FileInfo, err error) error {
			if err != nil || info.IsDir() || filepath.Base(p) != "sharddb.bbolt" {
				return nil
			}
			sid := filepath.Base(filepath.Dir(p))
			h, n, herr := fileHash(p)
			if herr != nil {
				h = "unreadable:" + herr.Error()
			}
			rel, _ := filepath.Rel(filepath.Join(d, "userCollections"), filepath.Dir(filepath.Dir(p)))
			out[sid] = append(out[sid], shardFile{node: ni, path: p, hash: h, size: n, owner: rel})
			return nil
		})
	}
	return out
}

// readRecords reads the user collection records of a stopped node.
func readRecords(dir string) (map[string][]byte, error) {
	out := map[string][]byte{}
	p := filepath.Join(dir, "nodedb.bbolt")
	if _, err := os.Stat(p); err != nil {
		return out, nil
	}
	db, err := bolt.Open(p, 0o600, &bolt.Options{ReadOnly: true, Timeout: 5 * time.Second})
	if err != nil {
		return nil, err
	}
	defer db.Close()
	err = db.View(func(tx *bolt.Tx) error {
		b := tx.Bucket([]byte("userCollections"))
		if b == nil {
			return nil
		}
		return b.ForEach(func(k, v []byte) error {
			out[string(k)] = append([]byte(nil), v...)
			return nil
		})
	})
	return out, err
}

func (c14) RunCase(c fw.Case, env *fw.Env) *fw.CaseResult {
	res := fw.NewResult()
	scs := c14Scenarios(c.Tier)
	sc := scs[c.Int("scenario", 0)%len(scs)]
	rng := rand.New(rand.NewPCG(c.Seed, 14))
	ports, err := httpx.FreePorts(12)
	if err != nil {
		res.Note("ports: %v", err)
		res.Inconclusive++
		return res
	}
	const maxNodes = 5
	names := make([]string, maxNodes)
	dirs := make([]string, maxNodes)
	for i := range names {
		names[i] = fmt.Sprintf("localhost:%d", ports[i])
		dirs[i] = filepath.Join(env.Dir, fmt.Sprintf("node%d", i))
	}
	plan := models.UserPlan{Name: "p", MaxCollections: 5, MaxCollectionPointCount: 100000, MaxPointSize: 1 << 16}
	plans := map[string]models.UserPlan{"P": plan}
	rpcTimeout := 30
	if strings.HasPrefix(sc.Fault, "recv-chunk") && strings.Contains(sc.Fault, ":sleep") {
		rpcTimeout = 1
	}
	mkNode := func(i int, servers []string, faultEnv string) *httpx.ProcNode {
		// every node is configured with the same SET of servers in its own order (itself first, the
		// others rotated): which server owns a key must not depend on the order of the list
		for k, name := range servers {
			if name == names[i] {
				rot := append([]string{}, servers[k:]...)
				servers = append(rot, servers[:k]...)
				break
			}
		}
		spec := httpx.NodeSpec{HTTPPort: ports[6+i], Plans: plans, Cluster: cluster.ClusterNodeConfig{
			RootDir: dirs[i], RpcHost: "localhost", RpcPort: ports[i], RpcTimeout: rpcTimeout, RpcRetries: 3, Servers: servers,
			ShardManager: cluster.ShardManagerConfig{RootDir: dirs[i], ShardTimeout: 300, MaxCacheSize: -1},
			MaxShardSize: 1 << 31, MaxShardPointCount: 25, MaxSearchLimit: 75}}
		n := httpx.NewProcNode(env.Exe, env.Dir, fmt.Sprintf("node%d", i), spec)
		if faultEnv != "" {
			n.Env = []string{"VERIF_CLUSTER_FAULTS=" + faultEnv}
		}
		return n
	}
	serversOf := func(idx []int) []string {
		out := make([]string, len(idx))
		for i, x := range idx {
			out[i] = names[x]
		}
		return out
	}
	// ---------------- phase A: load the old cluster
	oldServers := serversOf(sc.Old)
	oldNodes := map[int]*httpx.ProcNode{}
	killAll := func(m map[int]*httpx.ProcNode) {
		for _, n := range m {
			n.Kill()
		}
	}
	for _, i := range sc.Old {
		oldNodes[i] = mkNode(i, oldServers, "")
		if err := oldNodes[i].Start(); err != nil {
			res.Note("start: %v", err)
			res.Inconclusive++
			killAll(oldNodes)
			return res
		}
	}
	defer killAll(oldNodes)
	for _, n := range oldNodes {
		if err := n.WaitHTTP(40 * time.Second); err != nil {
			res.Note("old cluster did not come up: %v\n%s", err, tailStr(n.Log(), 800))
			res.Inconclusive++
			return res
		}
	}
	schema := models.IndexSchema{"n": gen.Int(), "flat": gen.Flat(3, models.DistanceEuclidean, nil)}
	g := gen.New(c.Seed, schema)
	g.ExtraProb = 0
	type colKey struct{ user, col string }
	stored := map[colKey]*model.Model{}
	// tenants: "bob" plus pairs of ids of which one is a proper prefix of the other (their records are
	// neighbours in the key order of the node database). A pair is preferred when the two users have
	// different owners under the new server list, so that records that sit next to each other on one
	// source must leave for different destinations.
	users := []string{"bob"}
	{
		newS := serversOf(sc.New)
		own := func(u string) string { return cluster.RendezvousHash(u, newS, 1)[0] }
		var split, same [][2]string
		for _, base := range []string{"user1", "ann", "u", "t0", "cy"} {
			for _, suf := range []string{"0", "a", "1x", "~", "-x", " b"} {
				pr := [2]string{base, base + suf}
				if own(pr[0]) != own(pr[1]) {
					split = append(split, pr)
				} else {
					same = append(same, pr)
				}
			}
		}
		rng.Shuffle(len(split), func(a, b int) { split[a], split[b] = split[b], split[a] })
		rng.Shuffle(len(same), func(a, b int) { same[a], same[b] = same[b], same[a] })
		pairs := append(split, same...)
		seen := map[string]bool{"bob": true}
		for _, pr := range pairs[:2] {
			for _, u := range pr {
				if !seen[u] {
					seen[u] = true
					users = append(users, u)
				}
			}
		}
		if len(split) > 0 {
			res.Stat("scenarios_with_prefix_related_tenants_on_different_owners", 1)
		}
		if sc.Users > 0 {
			// exchange scenarios: the stayers must both be handed records by every leaving node and
			// give records away to a new node in the same synchronisation; placement depends on the
			// server names (ports), so the tenants are chosen from their computed owners
			oldS := serversOf(sc.Old)
			ownOld := func(u string) string { return cluster.RendezvousHash(u, oldS, 1)[0] }
			stays := map[string]bool{}
			for _, x := range sc.Old {
				if slices.Contains(sc.New, x) {
					stays[names[x]] = true
				}
			}
			perClass := map[string]int{}
			for i := 0; i < 600 && len(users) < 3+sc.Users; i++ {
				u := fmt.Sprintf("tenant%03d", i)
				oo, on := ownOld(u), own(u)
				class := ""
				switch {
				case !stays[oo] && stays[on]:
					class = "in:" + oo + ">" + on
				case stays[oo] && !stays[on]:
					class = "out:" + oo
				}
				if class != "" && perClass[class] < 3 {
					perClass[class]++
					users = append(users, u)
				}
			}
			res.Stat("exchange_tenant_classes", int64(len(perClass)))
		}
	}
	entryOld := oldNodes[sc.Old[0]]
	for _, u := range users {
		cl := httpx.NewClient(entryOld.HTTPAddr, u, "P")
		for ci := 0; ci < 1+rng.IntN(2); ci++ {
			col := fmt.Sprintf("col%d", ci)
			if r := cl.Do("POST", "/v2/collections", map[string]any{"id": col, "indexSchema": schema}); r.Status != 200 {
				res.Note("create: %d %s %v", r.Status, trimBody(r.Body), r.Err)
				res.Inconclusive++
				return res
			}
			m := model.New()
			stored[colKey{u, col}] = m
			mcl := *cl
			mcl.Msgpack = true
			for b := 0; b < 1+rng.IntN(3); b++ {
				pts := make([]model.Point, 20+rng.IntN(40))
				for j := range pts {
					pts[j] = model.Point{Id: g.NewId(), Doc: g.Doc()}
				}
				if r := mcl.Do("POST", "/v2/collections/"+col+"/points", pointsBody(pts)); r.Status != 200 {
					res.Note("insert: %d %s %v", r.Status, trimBody(r.Body), r.Err)
					res.Inconclusive++
					return res
				}
				m.Insert(pts)
			}
		}
	}
	for _, n := range oldNodes {
		if err := n.Term(40 * time.Second); err != nil {
			res.Violate("shutdown", "C14:shutdown", err.Error(), nil)
			return res
		}
	}
	// synthetic shard files (unreferenced by any collection): byte identity at chunk boundaries
	for si, size := range sc.Synth {
		ni := sc.Old[rng.IntN(len(sc.Old))]
		sid := uuid.New().String()
		dir := filepath.Join(dirs[ni], "userCollections", "synth", fmt.Sprintf("c%d", si), sid)
		os.MkdirAll(dir, 0o755)
		f, err := os.Create(filepath.Join(dir, "sharddb.bbolt"))
		if err != nil {
			res.Note("synth: %v", err)
			continue
		}
		buf := make([]byte, 1<<20)
		var written int64
		pr := rand.New(rand.NewPCG(c.Seed, uint64(si)))
		for written < size {
			for i := 0; i < len(buf); i += 8 {
				v := pr.Uint64()
				for b := 0; b < 8; b++ {
					buf[i+b] = byte(v >> (8 * b))
				}
			}
			n := int64(len(buf))
			if size-written < n {
				n = size - written
			}
			f.Write(buf[:n])
			written += n
		}
		f.Close()
	}
	// ---------------- inventory
	orig := scanShards(dirs)
	origRecords := map[string][]byte{}
	for _, i := range sc.Old {
		recs, err := readRecords(dirs[i])
		if err != nil {
			res.Note("read records: %v", err)
			res.Inconclusive++
			return res
		}
		for k, v := range recs {
			origRecords[k] = v
		}
	}
	// A shard that was unloaded under a plan with backups has "<unixtime>-sharddb.bbolt.backup"
	// files next to it (utils.BackupBBolt); about a third of the shards get one or two. Nothing is
	// demanded of the backups themselves, only of the shard files they sit next to.
	backedUp := 0
	origIds := make([]string, 0, len(orig))
	for sid := range orig {
		origIds = append(origIds, sid)
	}
	sort.Strings(origIds)
	for _, sid := range origIds {
		if rng.IntN(3) != 0 {
			continue
		}
		src := orig[sid][0].path
		data, err := os.ReadFile(src)
		if err != nil || len(data) > 8<<20 {
			continue
		}
		for k := 0; k < 1+rng.IntN(2); k++ {
			name := fmt.Sprintf("%d-sharddb.bbolt.backup", 1700000000+k*3600)
			if os.WriteFile(filepath.Join(filepath.Dir(src), name), data, 0o644) == nil {
				backedUp++
			}
		}
	}
	res.Stat("backup_files_next_to_shards", int64(backedUp))
	newServers := serversOf(sc.New)
	ownerOf := func(key string) string { return cluster.RendezvousHash(key, newServers, 1)[0] }
	nodeOfName := map[string]int{}
	for i, n := range names {
		nodeOfName[n] = i
	}
	moves := 0
	for sid, files := range orig {
		if len(files) != 1 {
			res.Violate("setup", "C14:duplicate-original", fmt.Sprintf("shard %s exists %d times before the rebalancing", sid, len(files)), nil)
			return res
		}
		if nodeOfName[ownerOf(sid)] != files[0].node {
			moves++
		}
	}
	recordMoves := 0
	for k := range origRecords {
		user := strings.Split(k, "/")[0]
		// where is it now?
		for _, i := range sc.Old {
			recs, _ := readRecords(dirs[i])
			if _, ok := recs[k]; ok && nodeOfName[ownerOf(user)] != i {
				recordMoves++
			}
		}
	}
	// ---------------- phase B: restart with the new list (plus removed nodes, to drain)
	involved := map[int]bool{}
	for _, i := range sc.New {
		involved[i] = true
	}
	for _, i := range sc.Old {
		involved[i] = true
	}
	var invIdx []int
	for i := range involved {
		invIdx = append(invIdx, i)
	}
	sort.Ints(invIdx)
	faultNode := -1
	if sc.Fault != "none" {
		// receivers are new owners, senders are old holders: put the fault on every
		// node, the marker file makes it fire once in the whole deployment
		faultNode = 0
	}
	marker := filepath.Join(env.Dir, "fault.fired")
	newNodes := map[int]*httpx.ProcNode{}
	defer killAll(newNodes)
	for _, i := range invIdx {
		fe := ""
		if faultNode >= 0 && (sc.FaultOn == nil || slices.Contains(sc.FaultOn, i)) {
			fe = sc.Fault + ":" + marker
			if sc.FaultOn != nil {
				fe = sc.Fault + ":" + marker + fmt.Sprint(i) // once per listed node
			}
		}
		newNodes[i] = mkNode(i, newServers, fe)
	}
	checkNoLoss := func(round int) bool {
		now := scanShards(dirs)
		ok := true
		for sid, files := range orig {
			good := false
			for _, f := range now[sid] {
				if f.hash == files[0].hash {
					good = true
				}
			}
			if !good {
				desc := []string{}
				for _, f := range now[sid] {
					desc = append(desc, fmt.Sprintf("node%d:%d bytes", f.node, f.size))
				}
				res.Violate("shard-lost", "C14:no-complete-copy", fmt.Sprintf("scenario %s, end of round %d: no node holds a complete, checksum-identical copy of shard %s (original %d bytes on node%d); copies now: %v", sc.Name, round, sid, files[0].size, files[0].node, desc), nil)
				ok = false
			}
		}
		return ok
	}
	allUp := false
	rounds := 0
	for round := 1; round <= 6 && !allUp; round++ {
		rounds = round
		for _, i := range invIdx {
			if !newNodes[i].Running() {
				if err := newNodes[i].Start(); err != nil {
					res.Note("start: %v", err)
				}
			}
		}
		// wait until every node is either serving HTTP or has exited
		up := 0
		for _, i := range invIdx {
			if err := newNodes[i].WaitHTTP(120 * time.Second); err == nil {
				up++
			}
		}
		allUp = up == len(invIdx)
		if !allUp {
			// let the exits settle, then restart in the next round
			time.Sleep(300 * time.Millisecond)
		}
		quiescent := true
		for _, i := range invIdx {
			if newNodes[i].Running() {
				if err := newNodes[i].WaitHTTP(1 * time.Second); err != nil {
					quiescent = false
				}
			}
		}
		if quiescent && !checkNoLoss(round) {
			return res
		}
		res.Stat("rounds", 1)
	}
	fired := false
	if fm, _ := filepath.Glob(marker + "*"); len(fm) > 0 {
		fired = true
		res.Stat("faults_fired", 1)
	}
	if !allUp {
		logs := []string{}
		for _, i := range invIdx {
			if !newNodes[i].Running() {
				logs = append(logs, fmt.Sprintf("node%d: %s", i, lastErrorLines(newNodes[i].Log(), 3)))
			}
		}
		res.Violate("sync-never-completes", "C14:sync-incomplete:"+sc.Fault, fmt.Sprintf("scenario %s (fault fired: %v): after %d start-up rounds some nodes still cannot finish their synchronisation: %s", sc.Name, fired, rounds, strings.Join(logs, " | ")), nil)
		return res
	}
	// ---------------- final verification through HTTP (every node of the new set)
	for _, i := range sc.New {
		for ck, m := range stored {
			cl := httpx.NewClient(newNodes[i].HTTPAddr, ck.user, "P")
			ids := m.SortedIds()
			found := 0
			for a := 0; a < len(ids); a += 50 {
				chunkIds := ids[a:min(a+50, len(ids))]
				strs := make([]string, len(chunkIds))
				for j, id := range chunkIds {
					strs[j] = id.String()
				}
				r := cl.Do("POST", "/v2/collections/"+ck.col+"/points/search", map[string]any{
					"query": map[string]any{"property": "_id", "stringArray": map[string]any{"value": strs, "operator": "containsAny"}}, "select": []string{"*"}, "limit": 100})
				if r.Status != 200 {
					res.Violate("unreadable", "C14:read-status", fmt.Sprintf("scenario %s: reading %s/%s through node%d answered %d %s %v", sc.Name, ck.user, ck.col, i, r.Status, trimBody(r.Body), r.Err), nil)
					break
				}
				arr, _ := r.JSON["points"].([]any)
				for _, e := range arr {
					pm := e.(map[string]any)
					id, _ := uuid.Parse(fmt.Sprint(pm["_id"]))
					doc := model.Doc{}
					for k, v := range pm {
						if !strings.HasPrefix(k, "_") {
							doc[k] = v
						}
					}
					if want, ok := m.Docs[id]; ok && model.EqualLoose(map[string]any(doc), map[string]any(want)) {
						found++
					}
				}
			}
			res.Stat("points_read_back", int64(found))
			if found != len(ids) {
				res.Violate("unreadable", "C14:points-missing", fmt.Sprintf("scenario %s: through node%d only %d of the %d stored points of %s/%s are readable with their documents", sc.Name, i, found, len(ids), ck.user, ck.col), nil)
			}
		}
	}
	for _, n := range newNodes {
		n.Term(40 * time.Second)
	}
	// ---------------- placement on disk
	final := scanShards(dirs)
	for sid, files := range orig {
		want := nodeOfName[ownerOf(sid)]
		holders := []string{}
		okCopy := false
		for _, f := range final[sid] {
			holders = append(holders, fmt.Sprintf("node%d(%d bytes)", f.node, f.size))
			if f.node == want && f.hash == files[0].hash {
				okCopy = true
			}
			if f.node != want {
				res.Violate("misplaced", "C14:shard-on-non-owner", fmt.Sprintf("scenario %s: shard %s (%s) still resides on node%d, its owner under the new server list is node%d", sc.Name, sid, files[0].owner, f.node, want), nil)
			}
		}
		if !okCopy {
			res.Violate("misplaced", "C14:shard-not-on-owner", fmt.Sprintf("scenario %s: the owner node%d does not hold a byte-identical copy of shard %s (original %d bytes); holders: %v", sc.Name, want, sid, files[0].size, holders), nil)
		}
	}
	for sid := range final {
		if _, ok := orig[sid]; !ok {
			res.Violate("misplaced", "C14:unknown-shard-file", fmt.Sprintf("scenario %s: shard file %s appeared that did not exist before", sc.Name, sid), nil)
		}
	}
	recAt := map[string][]int{}
	for _, i := range invIdx {
		recs, err := readRecords(dirs[i])
		if err != nil {
			res.Note("read records node%d: %v", i, err)
			continue
		}
		for k, v := range recs {
			recAt[k] = append(recAt[k], i)
			if string(v) != string(origRecords[k]) {
				res.Violate("record-altered", "C14:record-altered", fmt.Sprintf("scenario %s: collection record %s on node%d differs from the original", sc.Name, k, i), nil)
			}
		}
	}
	for k := range origRecords {
		want := nodeOfName[ownerOf(strings.Split(k, "/")[0])]
		at := recAt[k]
		if len(at) != 1 || at[0] != want {
			res.Violate("misplaced", "C14:record-placement", fmt.Sprintf("scenario %s: collection record %s is held by nodes %v, its owner is node%d", sc.Name, k, at, want), nil)
		}
	}
	res.Eval(moves > 0 && recordMoves > 0, sc.Name, fmt.Sprint(sc.Synth))
	res.Stat("shards_that_had_to_move", int64(moves))
	res.Stat("records_that_had_to_move", int64(recordMoves))
	res.Stat("shard_files", int64(len(orig)))
	res.Sample(map[string]any{"scenario": sc.Name, "synthetic_file_sizes": sc.Synth, "shard_files": len(orig), "shards_moved": moves, "records_moved": recordMoves, "rounds": rounds, "fault_fired": fired})
	return res
}

func lastErrorLines(log string, n int) string {
	lines := strings.Split(strings.TrimSpace(log), "\n")
	var keep []string
	for i := len(lines) - 1; i >= 0 && len(keep) < n; i-- {
		if strings.Contains(lines[i], "error") || strings.Contains(lines[i], "fatal") || strings.Contains(lines[i], "VERIF-FAULT") || strings.Contains(lines[i], "panic") {
			l := lines[i]
			if len(l) > 400 {
				l = l[:400]
			}
			keep = append(keep, l)
		}
	}
	return strings.Join(keep, " // ")
}
