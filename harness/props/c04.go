package props

import (
	"fmt"
	"strings"
	"time"

	"github.com/google/uuid"
	"github.com/semafind/semadb/models"
	"github.com/semafind/semadb/shard/cache"
	"semaverif/fw"
	"semaverif/gen"
	"semaverif/model"
	"semaverif/sx"
)

// C04: flat vector search is exact k-nearest-neighbour search within the filter.
type c04 struct{}

func init() { fw.Register(c04{}) }

func (c04) ID() string    { return "C04" }
func (c04) Level() string { return "exploration" }
func (c04) Rule() string {
	return "unit = (stored state, flat search request, cache state): histories of insert/update/delete batches (vector changed, removed with \"_delete\", added by update, ids reused) for every metric (euclidean, cosine, dot, haversine, hamming, jaccard) x quantiser admitted by validation (none, binary fixed threshold, binary learned threshold, product); after every batch searches with limits 1..75, weights {nil,0,negative,large} and model-evaluated pre-filters, each asked on the warm instance, after evicting the index cache, and on cold instances opened on a byte copy of the file with the cache disabled and with a tiny cache limit. Oracle: float64 brute force over the model (quantised distances recomputed from the persisted threshold/centroids and codes), tie-aware. Non-trivial = more candidates than the limit, or cache state != warm; distinct by (state digest, request, cache state)."
}
func (c04) Assumptions() []string {
	return []string{"cosine vectors are unit-normalised as the docs require", "hamming/jaccard threshold bits at v > 0.5", "codes assigned by k-means training are taken as persisted; codes of later points are recomputed", "ties are never ordered: distance sequences and tie-closed membership only"}
}
func (c04) Floor(tier string) int {
	if tier == "thorough" {
		return 20000
	}
	return 1000
}
func (c04) Timeout(string) time.Duration { return 25 * time.Minute }
func (c04) Parallel(string) int          { return 16 }

type vecConfig struct {
	Name   string
	Metric string
	Dim    int
	Quant  string // none | bin-fixed | bin-learned | pq
	BitM   string
	Prop   string // property path of the vector field, "v" unless set (nested paths like "emb.v")
}

func (vc vecConfig) prop() string {
	if vc.Prop != "" {
		return vc.Prop
	}
	return "v"
}

var flatConfigs = []vecConfig{
	{"euclidean", models.DistanceEuclidean, 5, "none", "", ""},
	{"cosine", models.DistanceCosine, 7, "none", "", ""},
	{"dot", models.DistanceDot, 4, "none", "", ""},
	{"haversine", models.DistanceHaversine, 2, "none", "", ""},
	{"hamming", models.DistanceHamming, 70, "none", "", ""},
	{"jaccard", models.DistanceJaccard, 9, "none", "", ""},
	{"euclidean+bin-fixed-hamming", models.DistanceEuclidean, 66, "bin-fixed", models.DistanceHamming, ""},
	{"cosine+bin-fixed-jaccard", models.DistanceCosine, 12, "bin-fixed", models.DistanceJaccard, ""},
	{"euclidean+bin-learned-hamming", models.DistanceEuclidean, 10, "bin-learned", models.DistanceHamming, ""},
	{"dot+bin-learned-jaccard", models.DistanceDot, 65, "bin-learned", models.DistanceJaccard, ""},
	{"euclidean+pq", models.DistanceEuclidean, 8, "pq", "", ""},
	{"dot+pq", models.DistanceDot, 6, "pq", "", ""},
	{"cosine+pq", models.DistanceCosine, 8, "pq", "", ""},
	{"cosine+pq-untrained", models.DistanceCosine, 8, "pq-untrained", "", ""},
	{"euclidean-dim1", models.DistanceEuclidean, 1, "none", "", ""},
	{"hamming-dim64", models.DistanceHamming, 64, "none", "", ""},
	{"euclidean-dim33", models.DistanceEuclidean, 33, "none", "", ""},
	// the vector lives under a nested property path: inserts, updates through the parent key, removal
	{"euclidean-nested", models.DistanceEuclidean, 4, "none", "", "emb.v"},
	{"dot-nested+bin-fixed", models.DistanceDot, 9, "bin-fixed", models.DistanceHamming, "meta.deep.vec"},
}

func (vc vecConfig) quantizer() *models.Quantizer {
	switch vc.Quant {
	case "bin-fixed":
		t := float32(0.1)
		return gen.BinaryQ(&t, 0, vc.BitM)
	case "bin-learned":
		return gen.BinaryQ(nil, 60, vc.BitM)
	case "pq", "pq-untrained":
		return gen.ProductQ(8, 2, 1000)
	}
	return nil
}

func (c04) Cases(tier string, seed uint64) []fw.Case {
	reps := 6
	steps := 12
	if tier == "thorough" {
		reps = 50
		steps = 20
	}
	var cs []fw.Case
	for r := 0; r < reps; r++ {
		for i, vc := range flatConfigs {
			if vc.Quant == "pq" && r%3 != 0 {
				continue
			}
			cs = append(cs, fw.Case{Seed: fw.CaseSeed(seed, "C04"+vc.Name, r), Name: vc.Name, Params: map[string]any{"config": i, "steps": steps}})
		}
	}
	return cs
}

func vectorSchema(kind string, vc vecConfig, searchSize, degree int, alpha float32) models.IndexSchema {
	s := models.IndexSchema{"n": gen.Int(), "tags": gen.StrArr(false)}
	if kind == "flat" {
		s[vc.prop()] = gen.Flat(vc.Dim, vc.Metric, vc.quantizer())
	} else {
		s[vc.prop()] = gen.Vamana(vc.Dim, vc.Metric, searchSize, degree, alpha, vc.quantizer())
	}
	return s
}

// genFilter builds a pre-filter and its model-evaluated id set.
func genFilter(g *gen.G, m *model.Model, schema models.IndexSchema) (*models.Query, map[uuid.UUID]bool, string) {
	var q models.Query
	switch g.R.IntN(5) {
	case 0:
		q = intQ("n", models.OperatorGreaterOrEq, []int64{-2, 0, 1, 3, 100}[g.R.IntN(5)], 0)
	case 1:
		q = intQ("n", models.OperatorEquals, gen.IntPool[g.R.IntN(len(gen.IntPool))], 0)
	case 2:
		q = arrQ("tags", models.OperatorContainsAny, []string{gen.TagPool[g.R.IntN(len(gen.TagPool))], "blue"})
	case 3: // small explicit id set
		ids := m.SortedIds()
		n := g.R.IntN(5)
		var pick []uuid.UUID
		for i := 0; i < n && len(ids) > 0; i++ {
			pick = append(pick, ids[g.R.IntN(len(ids))])
		}
		pick = append(pick, g.NewId())
		q = idQuery(pick...)
	default:
		q = models.Query{Property: "_or", Or: []models.Query{intQ("n", models.OperatorLessThan, 0, 0), arrQ("tags", models.OperatorContainsAll, []string{"red"})}}
	}
	set, ok := m.Select(schema, q)
	if !ok {
		return nil, nil, ""
	}
	return &q, set, queryString(q)
}

var weights = []*float32{nil, nil, ptrF(0), ptrF(-1.5), ptrF(1e6), ptrF(0.25)}

func ptrF(f float32) *float32 { return &f }

func weightOf(w *float32) float32 {
	if w == nil {
		return 1
	}
	return *w
}

func (c04) RunCase(c fw.Case, env *fw.Env) *fw.CaseResult {
	res := fw.NewResult()
	vc := flatConfigs[c.Int("config", 0)]
	schema := vectorSchema("flat", vc, 0, 0, 0)
	vp := vc.prop()
	sv := schema[vp]
	g := gen.New(c.Seed, schema)
	g.PresentProb = 0.85
	path := shardPath(env, "c04")
	cm := cache.NewManager(-1)
	s, err := sx.Open(path, schema, cm, 0)
	if err != nil {
		res.Note("open: %v", err)
		res.Inconclusive++
		return res
	}
	defer s.Close()
	m := model.New()
	h := gen.NewHistory(g)
	h.MaxBatch = 30
	h.RejectProb = 0.08
	steps := c.Int("steps", 10)
	cacheName := path + "/" + indexBucket(vp, sv)
	nQueries := 10
	tw := newTrainWatch(vp, sv)
	// every second history of a configuration with a small training trigger starts with the
	// "straddle" prologue below
	straddle := tw.learned && tw.trigger <= 200 && !strings.Contains(vp, ".") && c.Seed%2 == 0
	for step := 0; step < steps; step++ {
		var op gen.Op
		if step == 0 && vc.Quant == "pq" {
			op = gen.Op{Kind: gen.OpInsert, Tag: "bulk-insert-for-training"}
			// every bulk point carries its vector fields: the trigger (1000) must really be crossed
			keep := g.PresentProb
			g.PresentProb = 1
			for i := 0; i < 1060; i++ {
				op.Points = append(op.Points, model.Point{Id: g.NewId(), Doc: g.Doc()})
			}
			g.PresentProb = keep
		} else if straddle && step == 0 {
			// directed prologue for a learned quantiser: stop three vectors short of the trigger, with
			// eight more points that have no vector yet (the searches after this batch scan the index)
			op = gen.Op{Kind: gen.OpInsert, Tag: "straddle-setup"}
			keep := g.PresentProb
			g.PresentProb = 1
			for i := 0; i < tw.trigger-3+8; i++ {
				d := g.Doc()
				if i >= tw.trigger-3 {
					delete(d, vp)
				}
				op.Points = append(op.Points, model.Point{Id: g.NewId(), Doc: d})
			}
			g.PresentProb = keep
		} else if straddle && step == 1 {
			// ... then ONE update takes the vector from three points and gives one to five others: the
			// index holds trigger-3 vectors before and trigger-1 after, although trigger+2 items pass
			// through the batch. The quantiser must stay untrained.
			op = gen.Op{Kind: gen.OpUpdate, Tag: "straddle-update"}
			with, without := 0, 0
			for _, id := range m.SortedIds() {
				if hasVec(m.Docs[id], vp, vc.Dim) && with < 3 {
					with++
					op.Points = append(op.Points, model.Point{Id: id, Doc: model.Doc{vp: model.DeleteValue}})
				} else if !hasVec(m.Docs[id], vp, vc.Dim) && without < 5 {
					without++
					op.Points = append(op.Points, model.Point{Id: id, Doc: model.Doc{vp: g.Vector(vc.Dim, vc.Metric)}})
				}
			}
			g.R.Shuffle(len(op.Points), func(a, b int) { op.Points[a], op.Points[b] = op.Points[b], op.Points[a] })
			res.Stat("straddle_updates", 1)
		} else if step%5 == 4 && len(m.Docs) > 2 && !strings.Contains(vp, ".") {
			// one batch names a point twice: the vector is taken away and given back in the same request
			op = gen.Op{Kind: gen.OpUpdate, Tag: "remove-and-readd-vector"}
			ids := m.SortedIds()
			for i := 0; i < min(5, len(ids)); i++ {
				id := ids[g.R.IntN(len(ids))]
				op.Points = append(op.Points, model.Point{Id: id, Doc: model.Doc{vp: model.DeleteValue}})
				op.Points = append(op.Points, model.Point{Id: id, Doc: model.Doc{vp: g.Vector(vc.Dim, vc.Metric)}})
			}
		} else {
			op = h.Next(m)
		}
		mBefore := m.Clone()
		ok, out := applyOp(res, "C04", s, m, op, step)
		if !ok {
			return res
		}
		h.Applied(op, out.Deleted)
		res.Stat("batches", 1)
		dump, err := sx.DumpStore(s.Shard.VerifDiskStore(), schema)
		if err != nil {
			res.Violate("dump-error", "C04:dump", err.Error(), nil)
			return res
		}
		o := newVecOracle(dump, vp, sv)
		if o.trained() {
			res.Stat("batches_with_trained_quantiser", 1)
			if o.mode == "pq" {
				res.Stat("batches_with_trained_product_quantiser", 1)
			}
		}
		tw.step(res, "C04", mBefore, m, op, out.Succeeded, o.trained(), step)
		digest := dump.Digest()
		// cold instances on a byte copy
		cold := map[string]*sx.Sx{}
		copyPath := fmt.Sprintf("%s.copy%d", path, step)
		if err := sx.CopyFile(path, copyPath); err == nil {
			if cs, err := sx.Open(copyPath, schema, nil, 0); err == nil {
				cold["cold-disabled"] = cs
			} else {
				res.Violate("reopen-error", "C04:reopen", err.Error(), nil)
			}
		}
		copyPath2 := copyPath + "b"
		if err := sx.CopyFile(path, copyPath2); err == nil {
			if cs, err := sx.Open(copyPath2, schema, cache.NewManager(700), 0); err == nil {
				cold["cold-tiny"] = cs
			}
		}
		for qi := 0; qi < nQueries; qi++ {
			query := g.Vector(vc.Dim, vc.Metric)
			if qi%4 == 3 && len(m.Docs) > 0 {
				// query equal to a stored vector (distance 0 / exact ties)
				for _, d := range m.Docs {
					if v, ok := model.AsVector(d, vp); ok && len(v) == vc.Dim {
						query = append([]float32(nil), v...)
						break
					}
				}
			}
			limit := []int{1, 2, 3, 5, 10, 25, 74, 75}[g.R.IntN(8)]
			w := weights[g.R.IntN(len(weights))]
			var filter *models.Query
			var fset map[uuid.UUID]bool
			fdesc := ""
			if g.R.IntN(3) == 0 {
				filter, fset, fdesc = genFilter(g, m, schema)
			}
			req := models.SearchRequest{Query: models.Query{Property: vp, VectorFlat: &models.SearchVectorFlatOptions{Vector: query, Operator: models.OperatorNear, Limit: limit, Filter: filter, Weight: w}}, Limit: 100}
			if req.Validate() != nil || req.Query.ValidateSchema(schema) != nil {
				continue
			}
			cands, probs := o.candidates(m, query, fset)
			for _, p := range probs {
				res.Violate("persisted-code", "C04:persisted-code:"+vc.Name, fmt.Sprintf("step %d: %s", step, p), nil)
			}
			states := []string{"warm", "evicted", "cold-disabled", "cold-tiny"}
			for _, st := range states {
				var hits []sx.Hit
				var err error
				switch st {
				case "warm":
					hits, err = s.Search(req)
				case "evicted":
					cm.Release(cacheName)
					hits, err = s.Search(req)
				default:
					cs, ok := cold[st]
					if !ok {
						continue
					}
					hits, err = cs.Search(req)
				}
				nt := len(cands) > limit || st != "warm"
				res.Eval(nt, digest, fmt.Sprint(query), limit, fdesc, f32(w), st)
				res.Stat("searches_"+st, 1)
				if err != nil {
					res.Violate("search-error", "C04:search-error:"+st+":"+errClass(err), fmt.Sprintf("step %d config %s state %s: flat search failed: %v", step, vc.Name, st, err), nil)
					continue
				}
				for _, p := range checkRanked(hits, cands, limit, weightOf(w), true) {
					res.Violate("flat-"+p.kind, "C04:"+p.kind+":"+vc.Name+":"+st, fmt.Sprintf("step %d config %s cache-state %s limit %d filter %q (%d candidates of %d live): %s", step, vc.Name, st, limit, fdesc, len(cands), len(m.Docs), p.msg), nil)
				}
			}
			if step == steps-1 && qi == 0 {
				res.Sample(map[string]any{"config": vc.Name, "live": len(m.Docs), "candidates": len(cands), "limit": limit, "filter": fdesc, "quantiser_trained": o.trained(), "cache_states": states})
			}
		}
		for _, cs := range cold {
			cs.Close()
		}
	}
	return res
}
