package props

import (
	"fmt"
	"math"
	"os"
	"sort"
	"time"

	"github.com/google/uuid"
	"github.com/semafind/semadb/models"
	"github.com/semafind/semadb/shard/cache"
	"semaverif/fw"
	"semaverif/gen"
	"semaverif/model"
	"semaverif/sx"
)

// C08: committed data is durable and answers do not depend on cache state or backend.
type c08 struct{}

func init() { fw.Register(c08{}) }

func (c08) ID() string    { return "C08" }
func (c08) Level() string { return "exploration" }
func (c08) Rule() string {
	return "unit = (history, configuration, batch index): the same history of successful batches runs on five primaries - file + unlimited shared cache (with index caches released at random moments), file + tiny cache limit (evicts on every access), file + cache disabled, in-memory back end with unlimited cache, in-memory back end with the cache disabled (every record read back through the memory bucket); after EVERY batch a battery of ~30 requests (_id reads of live/deleted ids, filter operators, text, flat, vamana with and without pre-filters, composites; select *) is answered by each primary and by a cold instance freshly opened on a byte copy of each file; before every delete batch the first primary's file is also copied and the copy receives the same batch with the cache disabled (fork): same bytes, same batch, different cache state while the batch runs. Oracle: tie-aware answer equality warm vs cold on the same file for every request, and between the primary and its fork for every request (graph answers included); equality across configurations and back ends (and with the model) for the deterministic indexes (filters, _id, text, flat without quantiser or with a fixed binary threshold). Non-trivial = the batch changed an index that has a cache (vector fields); distinct by (script hash, configuration, batch index)."
}
func (c08) Assumptions() []string {
	return []string{"graph answers are compared only between instances that share a file (random entry vector, concurrent insert order and k-means seeding legitimately differ across files)", "process death is out of scope here (C07); durability = close/reopen of a byte copy taken after the call returned", "fsync ordering / power loss is out of reach of runtime monitoring"}
}
func (c08) Floor(tier string) int {
	if tier == "thorough" {
		return 5000
	}
	return 300
}
func (c08) Timeout(string) time.Duration { return 25 * time.Minute }
func (c08) Parallel(string) int          { return 16 }

func (c08) Cases(tier string, seed uint64) []fw.Case {
	n, steps := 24, 24
	if tier == "thorough" {
		n, steps = 240, 40
	}
	cs := make([]fw.Case, n)
	for i := range cs {
		cs[i] = fw.Case{Seed: fw.CaseSeed(seed, "C08", i), Name: fmt.Sprintf("history%d", i), Params: map[string]any{"steps": steps, "pq": i%8 == 7}}
	}
	// sparse graphs: collinear points inserted one per batch give a chain; removing
	// consecutive hops exercises the paths that reconnect nodes left without inbound
	// edges - state that a warm cache hides until the shard is read cold
	chains := n / 3
	for i := 0; i < chains; i++ {
		cs = append(cs, fw.Case{Seed: fw.CaseSeed(seed, "C08chain", i), Name: fmt.Sprintf("chain%d", i), Params: map[string]any{"chain": true, "rounds": steps / 2}})
	}
	return cs
}

func c08Schema(pq bool) models.IndexSchema {
	thr := float32(0)
	s := models.IndexSchema{
		"vec":  gen.Vamana(5, models.DistanceEuclidean, 50, 32, 1.2, nil),
		"vq":   gen.Vamana(12, models.DistanceCosine, 40, 32, 1.2, gen.BinaryQ(nil, 40, models.DistanceHamming)),
		"flat": gen.Flat(4, models.DistanceEuclidean, nil),
		"fb":   gen.Flat(20, models.DistanceDot, gen.BinaryQ(&thr, 0, models.DistanceJaccard)),
		"fh":   gen.Flat(10, models.DistanceHamming, nil),
		"fl":   gen.Flat(6, models.DistanceEuclidean, gen.BinaryQ(nil, 30, models.DistanceHamming)),
		"txt":  gen.Text(),
		"n":    gen.Int(),
		"f":    gen.Float(),
		"s":    gen.Str(false),
		"tags": gen.StrArr(true),
	}
	if pq {
		s["vp"] = gen.Vamana(8, models.DistanceEuclidean, 50, 32, 1.2, gen.ProductQ(8, 2, 1000))
		s["fp"] = gen.Flat(6, models.DistanceDot, gen.ProductQ(4, 3, 1000))
	}
	return s
}

type batteryItem struct {
	req           models.SearchRequest
	deterministic bool // answer is a function of the history only (not of the file)
	filterOnly    bool
	desc          string
}

func buildBattery(g *gen.G, m *model.Model, schema models.IndexSchema, dead []uuid.UUID) []batteryItem {
	var out []batteryItem
	add := func(q models.Query, det bool, sel []string) {
		req := models.SearchRequest{Query: q, Limit: 100, Select: sel}
		if req.Validate() != nil || q.ValidateSchema(schema) != nil {
			return
		}
		out = append(out, batteryItem{req: req, deterministic: det, filterOnly: !hasRanking(q), desc: queryString(q)})
	}
	star := []string{"*"}
	ids := m.SortedIds()
	if len(ids) > 0 {
		pick := []uuid.UUID{ids[g.R.IntN(len(ids))], ids[g.R.IntN(len(ids))], g.NewId()}
		if len(dead) > 0 {
			pick = append(pick, dead[g.R.IntN(len(dead))])
		}
		add(idQuery(pick...), true, star)
		add(idQuery(ids[g.R.IntN(len(ids))]), true, nil)
	}
	add(intQ("n", models.OperatorGreaterOrEq, 0, 0), true, star)
	add(intQ("n", models.OperatorNotEquals, gen.IntPool[g.R.IntN(len(gen.IntPool))], 0), true, nil)
	add(floatQ("f", models.OperatorLessThan, gen.FloatPool[g.R.IntN(len(gen.FloatPool))], 0), true, nil)
	add(floatQ("f", models.OperatorInRange, -1, 2), true, nil)
	add(strQ("s", models.OperatorStartsWith, "a", ""), true, []string{"s"})
	add(strQ("s", models.OperatorGreaterThan, gen.StringPool[g.R.IntN(len(gen.StringPool))], ""), true, nil)
	add(arrQ("tags", models.OperatorContainsAny, []string{"red", "Red", gen.TagPool[g.R.IntN(len(gen.TagPool))]}), true, nil)
	add(arrQ("tags", models.OperatorContainsAll, []string{gen.TagPool[g.R.IntN(len(gen.TagPool))]}), true, nil)
	for i := 0; i < 3; i++ {
		op := []string{models.OperatorContainsAny, models.OperatorContainsAll}[g.R.IntN(2)]
		add(models.Query{Property: "txt", Text: &models.SearchTextOptions{Value: textQuery(g), Operator: op, Limit: 1 + g.R.IntN(30), Weight: weights[g.R.IntN(len(weights))]}}, true, star)
	}
	filt := func() *models.Query {
		if g.R.IntN(2) == 0 {
			return nil
		}
		f, _, _ := genFilter(g, m, schema)
		return f
	}
	for _, p := range []string{"flat", "fb", "fh", "fl", "fp"} {
		sv, ok := schema[p]
		if !ok {
			continue
		}
		dim, metric, q := gen.VectorParams(sv)
		det := q == nil || q.Type == models.QuantizerBinary && q.Binary.Threshold != nil
		for i := 0; i < 2; i++ {
			add(models.Query{Property: p, VectorFlat: &models.SearchVectorFlatOptions{Vector: g.Vector(dim, metric), Operator: models.OperatorNear, Limit: 1 + g.R.IntN(30), Filter: filt(), Weight: weights[g.R.IntN(len(weights))]}}, det, nil)
		}
	}
	for _, p := range []string{"vec", "vq", "vp"} {
		sv, ok := schema[p]
		if !ok {
			continue
		}
		dim, metric, _ := gen.VectorParams(sv)
		for i := 0; i < 3; i++ {
			ss := []int{25, 50, 75}[g.R.IntN(3)]
			add(models.Query{Property: p, VectorVamana: &models.SearchVectorVamanaOptions{Vector: g.Vector(dim, metric), Operator: models.OperatorNear, SearchSize: ss, Limit: 1 + g.R.IntN(ss), Filter: filt(), Weight: weights[g.R.IntN(len(weights))]}}, false, star)
		}
	}
	// composites. The text leaf's top-10 cut must not go through a tie class: the
	// score sums its terms in map order, so mathematically equal scores differ in
	// the last bit from one execution to the next and a different tie member makes
	// the cut - inside a composite that is not confined to the last tie class.
	tv := textQuery(g)
	thits := m.BuildCorpus("txt").Query(model.Analyse(tv), false, nil)
	if !(len(thits) > 10 && thits[9].Score-thits[10].Score <= 1e-5*(1+math.Abs(thits[10].Score))) {
		add(models.Query{Property: "_or", Or: []models.Query{
			{Property: "vec", VectorVamana: &models.SearchVectorVamanaOptions{Vector: g.Vector(5, models.DistanceEuclidean), Operator: models.OperatorNear, SearchSize: 50, Limit: 10}},
			{Property: "txt", Text: &models.SearchTextOptions{Value: tv, Operator: models.OperatorContainsAny, Limit: 10}},
			intQ("n", models.OperatorLessThan, 0, 0),
		}}, false, nil)
	}
	add(models.Query{Property: "_and", And: []models.Query{
		{Property: "flat", VectorFlat: &models.SearchVectorFlatOptions{Vector: g.Vector(4, models.DistanceEuclidean), Operator: models.OperatorNear, Limit: 40}},
		strQ("s", models.OperatorNotEquals, "a", ""),
	}}, true, nil)
	return out
}

func hasRanking(q models.Query) bool {
	if isRankingLeaf(q) {
		return true
	}
	for _, s := range q.And {
		if hasRanking(s) {
			return true
		}
	}
	for _, s := range q.Or {
		if hasRanking(s) {
			return true
		}
	}
	return false
}

type answer struct {
	hits []sx.Hit
	err  error
}

func hitKey(h sx.Hit) (float64, float64, float64) {
	d, s := math.NaN(), math.NaN()
	if h.Distance != nil {
		d = float64(*h.Distance)
	}
	if h.Score != nil {
		s = float64(*h.Score)
	}
	return d, s, float64(h.Hybrid)
}

func sameNum(a, b float64) bool {
	if math.IsNaN(a) || math.IsNaN(b) {
		return math.IsNaN(a) && math.IsNaN(b)
	}
	return math.Abs(a-b) <= 1e-5*math.Max(1, math.Max(math.Abs(a), math.Abs(b)))
}

// sameAnswer is the tie-aware equality of DESIGN 3.4. ranked=false compares
// id sets only (filter answers carry no order).
func sameAnswer(a, b answer, ranked bool) string {
	if (a.err == nil) != (b.err == nil) {
		return fmt.Sprintf("one instance answered, the other failed: %v / %v", a.err, b.err)
	}
	if a.err != nil {
		return ""
	}
	if len(a.hits) != len(b.hits) {
		return fmt.Sprintf("%d results vs %d results", len(a.hits), len(b.hits))
	}
	docs := func(hs []sx.Hit) map[uuid.UUID]model.Doc {
		out := map[uuid.UUID]model.Doc{}
		for _, h := range hs {
			out[h.Id] = h.Doc
		}
		return out
	}
	da, db := docs(a.hits), docs(b.hits)
	if !ranked {
		for id, d := range da {
			o, ok := db[id]
			if !ok {
				return fmt.Sprintf("point %s only in one answer", id)
			}
			if !model.Equal(map[string]any(orEmpty(d)), map[string]any(orEmpty(o))) {
				return fmt.Sprintf("point %s carries different documents", id)
			}
		}
		return ""
	}
	n := len(a.hits)
	for i := 0; i < n; i++ {
		ad, as, ah := hitKey(a.hits[i])
		bd, bs, bh := hitKey(b.hits[i])
		if !sameNum(ad, bd) || !sameNum(as, bs) || !sameNum(ah, bh) {
			return fmt.Sprintf("position %d: (distance %g, score %g, hybrid %g) vs (distance %g, score %g, hybrid %g)", i, ad, as, ah, bd, bs, bh)
		}
	}
	// ids must agree outside the tie class of the last position (it may straddle the cut)
	if n > 0 {
		ld, ls, lh := hitKey(a.hits[n-1])
		for i := 0; i < n; i++ {
			d, s, h := hitKey(a.hits[i])
			if sameNum(d, ld) && sameNum(s, ls) && sameNum(h, lh) {
				continue
			}
			if _, ok := db[a.hits[i].Id]; !ok {
				return fmt.Sprintf("point %s (position %d, not in the last tie class) only in one answer", a.hits[i].Id, i)
			}
		}
	}
	for id, d := range da {
		if o, ok := db[id]; ok && !model.Equal(map[string]any(orEmpty(d)), map[string]any(orEmpty(o))) {
			return fmt.Sprintf("point %s carries different documents", id)
		}
	}
	return ""
}

// c08Chain: see Cases.
func c08Chain(c fw.Case, env *fw.Env) *fw.CaseResult {
	res := fw.NewResult()
	schema := models.IndexSchema{"vec": gen.Vamana(2, models.DistanceEuclidean, 25, 32, 1.2, nil), "n": gen.Int()}
	g := gen.New(c.Seed, schema)
	type primary struct {
		name string
		s    *sx.Sx
	}
	prims := []primary{}
	for _, cfg := range []struct {
		name string
		cm   *cache.Manager
	}{{"file+unlimited", cache.NewManager(-1)}, {"file+tiny", cache.NewManager(300)}, {"file+disabled", cache.NewManager(0)}} {
		s, err := sx.Open(shardPath(env, "chain-"+cfg.name), schema, cfg.cm, 0)
		if err != nil {
			res.Note("open: %v", err)
			res.Inconclusive++
			return res
		}
		defer s.Close()
		prims = append(prims, primary{cfg.name, s})
	}
	m := model.New()
	order := []uuid.UUID{} // ids along the line
	step := 0
	apply := func(op gen.Op) bool {
		pre := m.Clone()
		for i, p := range prims {
			scratch := pre.Clone()
			ok, _ := applyOp(res, "C08:"+p.name, p.s, scratch, op, step)
			if !ok {
				return false
			}
			if i == 0 {
				*m = *scratch
			}
		}
		step++
		return true
	}
	compare := func(after string) {
		for _, p := range prims {
			cp := fmt.Sprintf("%s.cold%d", p.s.Path, step)
			if err := sx.CopyFile(p.s.Path, cp); err != nil {
				continue
			}
			cold, err := sx.Open(cp, schema, nil, 0)
			if err != nil {
				res.Violate("reopen-error", "C08:reopen", err.Error(), nil)
				continue
			}
			res.Eval(true, "chain", c.Seed, p.name, step)
			for _, id := range order {
				d, live := m.Docs[id]
				if !live {
					continue
				}
				v, hasVec := model.AsVector(d, "vec")
				if !hasVec || len(v) != 2 {
					continue
				}
				q := []float32{v[0] + 1, v[1]}
				req := models.SearchRequest{Query: models.Query{Property: "vec", VectorVamana: &models.SearchVectorVamanaOptions{Vector: q, Operator: models.OperatorNear, SearchSize: 25, Limit: 4}}, Limit: 10, Select: []string{"n"}}
				wh, werr := p.s.Search(req)
				ch, cerr := cold.Search(req)
				res.Stat("warm_cold_comparisons", 1)
				if diff := sameAnswer(answer{wh, werr}, answer{ch, cerr}, true); diff != "" {
					res.Violate("warm-vs-cold", "C08:warm-vs-cold:"+p.name+":[vamana(chain)]", fmt.Sprintf("chain graph, %s after %s: a search next to live point n=%v is answered differently by the running instance and by a cold instance on a copy of its file: %s", p.name, after, d["n"], diff), nil)
					break
				}
			}
			cold.Close()
			os.Remove(cp)
		}
	}
	nPts := 12 + g.R.IntN(10)
	for i := 0; i < nPts; i++ {
		id := g.NewId()
		order = append(order, id)
		if !apply(gen.Op{Kind: gen.OpInsert, Tag: "chain-insert", Points: []model.Point{{Id: id, Doc: model.Doc{"vec": []float32{float32(10 * (i + 1)), 0}, "n": int64(i)}}}}) {
			return res
		}
	}
	compare("the inserts")
	for r := 0; r < c.Int("rounds", 10); r++ {
		live := []int{}
		for i, id := range order {
			if _, ok := m.Docs[id]; ok {
				live = append(live, i)
			}
		}
		if len(live) < 6 {
			// grow the line again at the far end
			for j := 0; j < 6; j++ {
				id := g.NewId()
				order = append(order, id)
				if !apply(gen.Op{Kind: gen.OpInsert, Tag: "chain-insert", Points: []model.Point{{Id: id, Doc: model.Doc{"vec": []float32{float32(10 * (len(order))), 0}, "n": int64(len(order))}}}}) {
					return res
				}
			}
			continue
		}
		k := 2 + g.R.IntN(2)
		start := 1 + g.R.IntN(len(live)-k-1)
		if g.R.IntN(3) == 0 {
			// the hops right before the far end: the last point loses its only inbound edge
			start = len(live) - 1 - k
		}
		var op gen.Op
		switch g.R.IntN(4) {
		case 0: // move consecutive points far away (vector update)
			op = gen.Op{Kind: gen.OpUpdate, Tag: fmt.Sprintf("move-%d-consecutive", k)}
			for j := 0; j < k; j++ {
				op.Points = append(op.Points, model.Point{Id: order[live[start+j]], Doc: model.Doc{"vec": []float32{float32(-1000 - 10*g.R.IntN(50)), float32(500 + g.R.IntN(100))}}})
			}
		case 1: // remove the vector field of consecutive points
			op = gen.Op{Kind: gen.OpUpdate, Tag: fmt.Sprintf("unvector-%d-consecutive", k)}
			for j := 0; j < k; j++ {
				op.Points = append(op.Points, model.Point{Id: order[live[start+j]], Doc: model.Doc{"vec": model.DeleteValue}})
			}
		default:
			op = gen.Op{Kind: gen.OpDelete, Tag: fmt.Sprintf("delete-%d-consecutive", k)}
			for j := 0; j < k; j++ {
				op.Ids = append(op.Ids, order[live[start+j]])
			}
		}
		if !apply(op) {
			return res
		}
		compare(op.Tag)
		if len(res.Violations) > 4 {
			break
		}
	}
	res.Sample(map[string]any{"kind": "chain graph", "points_on_the_line": len(order), "live": len(m.Docs), "batches": step})
	return res
}

func (c08) RunCase(c fw.Case, env *fw.Env) *fw.CaseResult {
	if c.Bool("chain", false) {
		return c08Chain(c, env)
	}
	res := fw.NewResult()
	pq := c.Bool("pq", false)
	schema := c08Schema(pq)
	g := gen.New(c.Seed, schema)
	// continuous vectors only: an exact distance tie at a leaf's cut lets tie
	// members differ legitimately between executions, and inside a composite
	// that difference is not confined to the last tie class
	g.NoLattice = true
	type primary struct {
		name string
		s    *sx.Sx
		cm   *cache.Manager
	}
	mk := func(name, path string, cm *cache.Manager) *primary {
		s, err := sx.Open(path, schema, cm, 0)
		if err != nil {
			res.Note("open %s: %v", name, err)
			return nil
		}
		return &primary{name, s, cm}
	}
	cmU := cache.NewManager(-1)
	prims := []*primary{
		mk("file+unlimited", shardPath(env, "p1"), cmU),
		mk("file+tiny", shardPath(env, "p2"), cache.NewManager(600)),
		mk("file+disabled", shardPath(env, "p3"), cache.NewManager(0)),
		mk("memory", "", cache.NewManager(-1)),
		// the in-memory back end read cold: every record comes back through memBucket.Get
		mk("memory+disabled", "", cache.NewManager(0)),
	}
	for _, p := range prims {
		if p == nil {
			res.Inconclusive++
			return res
		}
		defer p.s.Close()
	}
	m := model.New()
	h := gen.NewHistory(g)
	h.RejectProb = 0
	h.MaxBatch = 30
	steps := c.Int("steps", 24)
	var dead []uuid.UUID
	script := []string{}
	// when a learned quantiser becomes trained is a function of the committed history, not of the
	// cache configuration (see trainWatch)
	watches := map[string]map[string]*trainWatch{}
	for _, p := range prims {
		if p.s.Path == "" {
			continue
		}
		watches[p.name] = map[string]*trainWatch{}
		for prop, sv := range schema {
			if sv.Type == models.IndexTypeVectorFlat || sv.Type == models.IndexTypeVectorVamana {
				if w := newTrainWatch(prop, sv); w.learned {
					watches[p.name][prop] = w
				}
			}
		}
	}
	for step := 0; step < steps; step++ {
		var op gen.Op
		if step == 0 && pq {
			op = gen.Op{Kind: gen.OpInsert, Tag: "bulk-insert-for-training"}
			// every bulk point carries its vector fields: the trigger (1000) must really be crossed
			keep := g.PresentProb
			g.PresentProb = 1
			for i := 0; i < 1030; i++ {
				op.Points = append(op.Points, model.Point{Id: g.NewId(), Doc: g.Doc()})
			}
			g.PresentProb = keep
		} else {
			op = h.Next(m)
		}
		script = append(script, fmt.Sprint(describeOp(op)))
		touchesVector := false
		for _, p := range op.Points {
			for k := range p.Doc {
				if sv, ok := schema[k]; ok && (sv.Type == models.IndexTypeVectorFlat || sv.Type == models.IndexTypeVectorVamana) {
					touchesVector = true
				}
			}
		}
		if op.Kind == gen.OpDelete && len(op.Ids) > 0 {
			touchesVector = true
		}
		// Fork: before a batch that deletes points (updates re-insert vectors with concurrent workers, whose
		// outcome legitimately differs from run to run), the first primary's file is
		// copied. The copy is opened with the cache DISABLED and receives the same batch. Both
		// instances then hold the same committed history on the same bytes - they differ only in
		// what was cached while the batch ran - so every answer must agree, graph answers included.
		var fork *sx.Sx
		forkPath := ""
		if op.Kind == gen.OpDelete && op.Size() > 0 && !pq {
			forkPath = fmt.Sprintf("%s.fork%d", prims[0].s.Path, step)
			if err := sx.CopyFile(prims[0].s.Path, forkPath); err == nil {
				if f, err := sx.Open(forkPath, schema, cache.NewManager(0), 0); err == nil {
					fork = f
				}
			}
		}
		var out opOutcome
		pre := m.Clone()
		if fork != nil {
			scratch := pre.Clone()
			if ok, _ := applyOp(res, "C08:fork-cold", fork, scratch, op, step); !ok {
				fork.Close()
				return res
			}
		}
		for i, p := range prims {
			scratch := pre.Clone()
			ok, o := applyOp(res, "C08:"+p.name, p.s, scratch, op, step)
			if !ok {
				return res
			}
			if i == 0 {
				out = o
				*m = *scratch
			}
		}
		h.Applied(op, out.Deleted)
		for _, p := range prims {
			ws := watches[p.name]
			if len(ws) == 0 {
				continue
			}
			dump, err := sx.DumpStore(p.s.Shard.VerifDiskStore(), schema)
			if err != nil {
				res.Violate("dump-error", "C08:dump", err.Error(), nil)
				continue
			}
			for prop, w := range ws {
				o := newVecOracle(dump, prop, schema[prop])
				w.step(res, "C08:"+p.name+":"+prop, pre, m, op, out.Succeeded, o.trained(), step)
			}
		}
		dead = append(dead, out.Deleted...)
		if len(dead) > 50 {
			dead = dead[len(dead)-50:]
		}
		res.Stat("batches", 1)
		// random cache release on the unlimited primary ("a cache that was just evicted")
		if g.R.IntN(3) == 0 {
			for _, name := range sx.BucketNames(schema) {
				if g.R.IntN(2) == 0 {
					cmU.Release(prims[0].s.Path + "/" + name)
					res.Stat("cache_releases", 1)
				}
			}
		}
		battery := buildBattery(g, m, schema, dead)
		answers := make([][]answer, len(prims))
		for i, p := range prims {
			answers[i] = make([]answer, len(battery))
			for j, b := range battery {
				hits, err := p.s.Search(b.req)
				answers[i][j] = answer{hits, err}
			}
		}
		scriptHash := fw.Hash64(script)
		if fork != nil {
			for j, b := range battery {
				hits, err := fork.Search(b.req)
				res.Stat("fork_comparisons", 1)
				if diff := sameAnswer(answers[0][j], answer{hits, err}, !b.filterOnly); diff != "" {
					res.Violate("config-dependence", "C08:fork-warm-vs-cold-batch:"+leafKinds(b.req.Query), fmt.Sprintf("step %d (after %s): the same file received the same batch once on the running instance (warm unlimited cache) and once on a copy opened with the cache disabled; request %s is answered differently: %s", step, op.Tag, b.desc, diff), nil)
					break
				}
			}
			fork.Close()
			os.Remove(forkPath)
		}
		for i, p := range prims {
			res.Eval(touchesVector, scriptHash, p.name, step)
			// no request may fail
			for j, b := range battery {
				if answers[i][j].err != nil {
					res.Violate("search-error", "C08:search-error:"+p.name+":"+errClass(answers[i][j].err), fmt.Sprintf("step %d %s: %s failed: %v", step, p.name, b.desc, answers[i][j].err), nil)
				}
			}
			if p.s.Path == "" {
				continue
			}
			// cold reopen of a byte copy
			copyPath := fmt.Sprintf("%s.cold%d", p.s.Path, step)
			if err := sx.CopyFile(p.s.Path, copyPath); err != nil {
				res.Note("copy: %v", err)
				continue
			}
			cold, err := sx.Open(copyPath, schema, nil, 0)
			if err != nil {
				res.Violate("reopen-error", "C08:reopen", fmt.Sprintf("step %d %s: a byte copy of the shard file does not open: %v", step, p.name, err), nil)
				continue
			}
			cnt, _ := cold.PointCount()
			if int(cnt) != len(m.Docs) {
				res.Violate("durability", "C08:cold-count:"+p.name, fmt.Sprintf("step %d %s: reopened copy reports %d points, %d were committed", step, p.name, cnt, len(m.Docs)), nil)
			}
			for j, b := range battery {
				hits, err := cold.Search(b.req)
				res.Stat("warm_cold_comparisons", 1)
				if diff := sameAnswer(answers[i][j], answer{hits, err}, !b.filterOnly); diff != "" {
					res.Violate("warm-vs-cold", "C08:warm-vs-cold:"+p.name+":"+leafKinds(b.req.Query), fmt.Sprintf("step %d %s (after %s): request %s answered differently by the running instance and by a cold instance on a copy of its file: %s", step, p.name, op.Tag, b.desc, diff), nil)
				}
			}
			cold.Close()
		}
		// across configurations and against the model, deterministic requests only
		for j, b := range battery {
			if !b.deterministic {
				continue
			}
			for i := 1; i < len(prims); i++ {
				if b.filterOnly && (len(answers[0][j].hits) >= 100 || len(answers[i][j].hits) >= 100) {
					// truncated at the request limit: which 100 members come
					// back depends on internal node ids, which differ across files
					continue
				}
				res.Stat("cross_config_comparisons", 1)
				if diff := sameAnswer(answers[0][j], answers[i][j], !b.filterOnly); diff != "" {
					res.Violate("config-dependence", "C08:cross-config:"+prims[i].name+":"+leafKinds(b.req.Query), fmt.Sprintf("step %d: request %s answered differently by %s and %s for the same history: %s", step, b.desc, prims[0].name, prims[i].name, diff), nil)
				}
			}
			if b.filterOnly && answers[0][j].err == nil {
				want, ok := m.Select(schema, b.req.Query)
				if ok && len(want) <= 100 {
					got := map[uuid.UUID]bool{}
					for _, hh := range answers[0][j].hits {
						got[hh.Id] = true
					}
					if len(got) != len(want) {
						res.Violate("model-mismatch", "C08:model:"+leafKinds(b.req.Query), fmt.Sprintf("step %d: %s returned %d points, model selects %d", step, b.desc, len(got), len(want)), nil)
					}
				}
			}
		}
		if step == steps-1 {
			res.Sample(map[string]any{"primaries": []string{"file+unlimited", "file+tiny", "file+disabled", "memory", "memory+disabled"}, "battery_size": len(battery), "live": len(m.Docs), "last_battery": batteryDescs(battery, 6)})
		}
	}
	return res
}

func batteryDescs(b []batteryItem, n int) []string {
	out := []string{}
	for i, it := range b {
		if i%max(1, len(b)/n) == 0 {
			out = append(out, it.desc)
		}
	}
	return out
}

func leafKinds(q models.Query) string {
	kinds := map[string]bool{}
	var walk func(q models.Query)
	walk = func(q models.Query) {
		switch {
		case q.VectorFlat != nil:
			kinds["flat("+q.Property+")"] = true
		case q.VectorVamana != nil:
			kinds["vamana("+q.Property+")"] = true
		case q.Text != nil:
			kinds["text"] = true
		case q.Property == "_id":
			kinds["_id"] = true
		case q.Property != "_and" && q.Property != "_or":
			kinds["filter"] = true
		}
		for _, s := range q.And {
			walk(s)
		}
		for _, s := range q.Or {
			walk(s)
		}
	}
	walk(q)
	ks := make([]string, 0, len(kinds))
	for k := range kinds {
		ks = append(ks, k)
	}
	sort.Strings(ks)
	return fmt.Sprint(ks)
}
