package props

import (
	"fmt"
	"math"
	"sort"
	"strings"
	"time"

	"github.com/google/uuid"
	"github.com/semafind/semadb/models"
	"semaverif/fw"
	"semaverif/gen"
	"semaverif/model"
	"semaverif/sx"
)

// C06: hybrid scores, field selection, sorting and paging behave as documented.
type c06 struct{}

func init() { fw.Register(c06{}) }

func (c06) ID() string    { return "C06" }
func (c06) Level() string { return "exploration" }
func (c06) Rule() string {
	return "unit = (stored state, search request): the state is built by a write history over a schema with a vamana, a flat, a text and filter indexes; a request is a query tree of 1..4 leaves (vamana / flat / text ranking leaves with weights incl. 0 and negative and optional pre-filters, filter leaves) combined with _and/_or up to depth 3, a select list (nested paths, \"*\", colliding \"a\" and \"a.b\", absent fields), up to 10 sort keys (asc/desc, nested, missing on some points, ties) and offset/limit. Compositional oracle: every ranking leaf is first issued alone on the same quiescent state and its ranked answer observed; the expected composite (union/intersection, summed hybrid scores, ranked-before-unranked, hybrid order) is computed by the documented rules; select / sort / page are recomputed from the model documents. Stored data as a JSON client (float64 numbers) and as a msgpack client (compact integer widths) would leave it. Non-trivial = >= 2 leaves with overlapping results, or sort/offset present; distinct by (state digest, request)."
}
func (c06) Assumptions() []string {
	return []string{"the hybrid-order rule is applied to _and/_or requests only (the statement begins 'for composite queries')", "sort fields never mix types (int vs string); integers of different widths are one type", "sort keys must be selected (documented)", "ties are never ordered: key sequences and membership only"}
}
func (c06) Floor(tier string) int {
	if tier == "thorough" {
		return 12000
	}
	return 800
}
func (c06) Timeout(string) time.Duration { return 25 * time.Minute }
func (c06) Parallel(string) int          { return 16 }

func (c06) Cases(tier string, seed uint64) []fw.Case {
	n := 120
	if tier == "thorough" {
		n = 400
	}
	cs := make([]fw.Case, n)
	for i := range cs {
		cs[i] = fw.Case{Seed: fw.CaseSeed(seed, "C06", i), Name: fmt.Sprintf("state%d", i), Params: map[string]any{"steps": 8, "requests": 60, "client": []string{"json", "msgpack"}[i%2]}}
	}
	return cs
}

type rankedItem struct {
	id     uuid.UUID
	hybrid float32
	dist   *float32
	score  *float32
}

type nodeRes struct {
	set    map[uuid.UUID]bool
	ranked []rankedItem
	leaves int
}

type c06ctx struct {
	res    *fw.CaseResult
	s      *sx.Sx
	m      *model.Model
	schema models.IndexSchema
	g      *gen.G
	failed string
	// ambiguous is set when a ranking leaf's answer is cut through a tie (the
	// members of a tie class that make the cut may legitimately differ from
	// one execution to the next), so the compositional oracle cannot be used
	ambiguous bool
	dump      *sx.Dump
}

// leafAmbiguous decides from the model whether the leaf's top-limit cut goes
// through a tie class.
func (cx *c06ctx) leafAmbiguous(q models.Query) bool {
	var fset map[uuid.UUID]bool
	filterOf := func(f *models.Query) bool {
		if f == nil {
			return true
		}
		set, ok := cx.m.Select(cx.schema, *f)
		fset = set
		return ok
	}
	switch {
	case q.VectorFlat != nil:
		if !filterOf(q.VectorFlat.Filter) {
			return true
		}
		o := newVecOracle(cx.dump, q.Property, cx.schema[q.Property])
		cands, _ := o.candidates(cx.m, q.VectorFlat.Vector, fset)
		k := q.VectorFlat.Limit
		return len(cands) > k && cands[k].Dist.V-cands[k-1].Dist.V <= cands[k].Dist.Bound()+cands[k-1].Dist.Bound()
	case q.Text != nil:
		if !filterOf(q.Text.Filter) {
			return true
		}
		terms := model.Analyse(q.Text.Value)
		hits := cx.m.BuildCorpus(q.Property).Query(terms, q.Text.Operator == models.OperatorContainsAll, fset)
		k := q.Text.Limit
		return len(hits) > k && hits[k-1].Score-hits[k].Score <= 1e-6*(1+math.Abs(hits[k].Score))
	}
	return false
}

func isRankingLeaf(q models.Query) bool {
	return q.VectorFlat != nil || q.VectorVamana != nil || q.Text != nil
}

// evalTree computes the expected (set, ranked list) of a query tree. Ranking
// leaves are observed by issuing them alone.
func (cx *c06ctx) evalTree(q models.Query) (nodeRes, bool) {
	switch q.Property {
	case "_and", "_or":
		subs := q.And
		if q.Property == "_or" {
			subs = q.Or
		}
		children := make([]nodeRes, len(subs))
		leaves := 0
		for i, sq := range subs {
			r, ok := cx.evalTree(sq)
			if !ok {
				return nodeRes{}, false
			}
			children[i] = r
			leaves += r.leaves
		}
		if len(children) == 1 {
			children[0].leaves = leaves
			return children[0], true
		}
		out := nodeRes{set: map[uuid.UUID]bool{}, leaves: leaves}
		if q.Property == "_or" {
			for _, ch := range children {
				for id := range ch.set {
					out.set[id] = true
				}
			}
		} else {
			for id := range children[0].set {
				in := true
				for _, ch := range children[1:] {
					if !ch.set[id] {
						in = false
						break
					}
				}
				if in {
					out.set[id] = true
				}
			}
		}
		idx := map[uuid.UUID]int{}
		for _, ch := range children {
			for _, r := range ch.ranked {
				if !out.set[r.id] {
					continue
				}
				if i, ok := idx[r.id]; ok {
					out.ranked[i].hybrid += r.hybrid
					if out.ranked[i].dist == nil {
						out.ranked[i].dist = r.dist
					}
					if out.ranked[i].score == nil {
						out.ranked[i].score = r.score
					}
				} else {
					idx[r.id] = len(out.ranked)
					out.ranked = append(out.ranked, r)
				}
			}
		}
		sort.SliceStable(out.ranked, func(i, j int) bool { return out.ranked[i].hybrid > out.ranked[j].hybrid })
		return out, true
	}
	if isRankingLeaf(q) {
		if cx.leafAmbiguous(q) {
			cx.ambiguous = true
			return nodeRes{}, false
		}
		hits, err := cx.s.Search(models.SearchRequest{Query: q, Limit: 100})
		if err != nil {
			cx.failed = fmt.Sprintf("leaf %s alone failed: %v", queryString(q), err)
			return nodeRes{}, false
		}
		if q.VectorVamana != nil {
			again, err := cx.s.Search(models.SearchRequest{Query: q, Limit: 100})
			if err != nil || len(again) != len(hits) {
				cx.ambiguous = true
				return nodeRes{}, false
			}
			for i := range hits {
				if hits[i].Id != again[i].Id {
					cx.ambiguous = true
					return nodeRes{}, false
				}
			}
		}
		out := nodeRes{set: map[uuid.UUID]bool{}, leaves: 1}
		for _, h := range hits {
			out.set[h.Id] = true
			out.ranked = append(out.ranked, rankedItem{id: h.Id, hybrid: h.Hybrid, dist: h.Distance, score: h.Score})
		}
		return out, true
	}
	set, ok := cx.m.Select(cx.schema, q)
	if !ok {
		return nodeRes{}, false
	}
	return nodeRes{set: set, leaves: 1}, true
}

func c06Schema() models.IndexSchema {
	return models.IndexSchema{
		"vec":    gen.Vamana(5, models.DistanceEuclidean, 75, 64, 1.2, nil),
		"flat":   gen.Flat(4, models.DistanceDot, nil),
		"txt":    gen.Text(),
		"n":      gen.Int(),
		"tags":   gen.StrArr(false),
		"s":      gen.Str(false),
		"meta.n": gen.Int(),
	}
}

func (cx *c06ctx) genLeaf(allowRank bool) models.Query {
	g := cx.g
	kind := g.R.IntN(7)
	if !allowRank && kind < 3 {
		kind += 3
	}
	var filter *models.Query
	if g.R.IntN(4) == 0 {
		f, _, _ := genFilter(g, cx.m, cx.schema)
		filter = f
	}
	w := weights[g.R.IntN(len(weights))]
	switch kind {
	case 0:
		ss := []int{25, 50, 75}[g.R.IntN(3)]
		return models.Query{Property: "vec", VectorVamana: &models.SearchVectorVamanaOptions{Vector: g.Vector(5, models.DistanceEuclidean), Operator: models.OperatorNear, SearchSize: ss, Limit: 1 + g.R.IntN(ss), Filter: filter, Weight: w}}
	case 1:
		return models.Query{Property: "flat", VectorFlat: &models.SearchVectorFlatOptions{Vector: g.Vector(4, models.DistanceDot), Operator: models.OperatorNear, Limit: 1 + g.R.IntN(40), Filter: filter, Weight: w}}
	case 2:
		op := []string{models.OperatorContainsAny, models.OperatorContainsAll}[g.R.IntN(2)]
		return models.Query{Property: "txt", Text: &models.SearchTextOptions{Value: textQuery(g), Operator: op, Limit: 1 + g.R.IntN(40), Filter: filter, Weight: w}}
	case 3:
		return intQ("n", cmpOps[g.R.IntN(len(cmpOps))], gen.IntPool[g.R.IntN(len(gen.IntPool))], 0)
	case 4:
		return arrQ("tags", []string{models.OperatorContainsAny, models.OperatorContainsAll}[g.R.IntN(2)], []string{gen.TagPool[g.R.IntN(len(gen.TagPool))], gen.TagPool[g.R.IntN(len(gen.TagPool))]})
	case 5:
		return strQ("s", []string{models.OperatorGreaterOrEq, models.OperatorLessThan, models.OperatorStartsWith, models.OperatorNotEquals}[g.R.IntN(4)], gen.StringPool[g.R.IntN(len(gen.StringPool))], "")
	default:
		return intQ("meta.n", models.OperatorGreaterThan, []int64{-2, 0, 2}[g.R.IntN(3)], 0)
	}
}

func (cx *c06ctx) genTree(depth int, leavesLeft *int) models.Query {
	g := cx.g
	if depth == 0 || *leavesLeft <= 1 || g.R.IntN(3) == 0 {
		*leavesLeft--
		return cx.genLeaf(true)
	}
	n := 1 + g.R.IntN(3)
	if g.R.IntN(6) == 0 {
		n = 1
	}
	subs := []models.Query{}
	for i := 0; i < n && *leavesLeft > 0; i++ {
		subs = append(subs, cx.genTree(depth-1, leavesLeft))
	}
	if g.R.IntN(2) == 0 {
		return models.Query{Property: "_and", And: subs}
	}
	return models.Query{Property: "_or", Or: subs}
}

var selectPool = []string{"name.first", "rank.x", "name", "rank", "price", "meta.n", "meta", "meta.lbl", "n", "s", "txt", "tags", "absent", "absent.deep", "meta.absent", "flat",
	// paths of three and four segments, siblings below one ancestor, and the ancestors themselves
	"deep.a.b", "deep.a.c", "deep.x.y.z", "deep.a", "deep", "deep.a.absent", "deep.x.y"}
var sortPool = []string{"rank", "name", "price", "meta.n", "n", "meta.lbl", "absent", "deep.a.b", "deep.x.y.z"}

// c06Doc adds the sort/select playground fields to a generated document.
func c06Doc(g *gen.G, d model.Doc, msgpackClient bool) model.Doc {
	if g.R.IntN(6) != 0 {
		v := g.R.IntN(600) - 200
		if msgpackClient {
			// a msgpack client encodes integers in the smallest width
			// (positive fixint / int8 / uint8 / uint16 / int16), which is what
			// the decoder hands to the shard as int8, uint8, uint16, int16
			switch {
			case g.R.IntN(8) == 0:
				// wide values: 32 and 64 bit widths, both sides of 2^31, 2^32 and 2^63
				wide := []any{int32(math.MinInt32), int32(math.MaxInt32), uint32(math.MaxInt32) + 1, uint32(math.MaxUint32),
					int64(math.MinInt64), int64(math.MinInt32) - 1, int64(math.MaxUint32) + 1, int64(math.MaxInt64), int64(math.MaxInt64) - 1,
					uint64(math.MaxInt64), uint64(math.MaxInt64) + 1, uint64(math.MaxInt64) + 2, uint64(math.MaxUint64), uint64(math.MaxUint64) - 1,
					uint64(1) << 63, uint64(3) << 62, int64(-1), uint64(0)}
				d["rank"] = wide[g.R.IntN(len(wide))]
			case v >= -128 && v < 128:
				d["rank"] = int8(v)
			case v >= 128 && v < 256:
				d["rank"] = uint8(v)
			case v >= 256:
				d["rank"] = uint16(v)
			default:
				d["rank"] = int16(v)
			}
		} else {
			d["rank"] = float64(v) // a JSON client's numbers arrive as float64
		}
	}
	if g.R.IntN(6) != 0 {
		d["name"] = gen.StringPool[g.R.IntN(len(gen.StringPool))]
	}
	if g.R.IntN(5) != 0 {
		d["price"] = float64(g.R.IntN(40)) / 4
	}
	if meta, ok := d["meta"].(map[string]any); ok && g.R.IntN(2) == 0 {
		meta["lbl"] = []string{"x", "y", "z"}[g.R.IntN(3)]
	}
	if g.R.IntN(5) != 0 {
		deep := map[string]any{}
		if g.R.IntN(4) != 0 {
			a := map[string]any{"b": float64(g.R.IntN(9))}
			if g.R.IntN(2) == 0 {
				a["c"] = []string{"p", "q", "r"}[g.R.IntN(3)]
			}
			deep["a"] = a
		}
		if g.R.IntN(3) != 0 {
			deep["x"] = map[string]any{"y": map[string]any{"z": float64(g.R.IntN(40)) / 8}}
		}
		d["deep"] = deep
	}
	return d
}

// cmpSortVals orders two present values of one sort key by the documented meaning.
func cmpSortVals(a, b any) int {
	if c, ok := model.CmpInteger(a, b); ok {
		return c
	}
	if af, ok := model.AsFloat(a); ok {
		if bf, ok := model.AsFloat(b); ok {
			return cmpF(af, bf)
		}
	}
	if as, ok := a.(string); ok {
		if bs, ok := b.(string); ok {
			return strings.Compare(as, bs)
		}
	}
	return 0 // not comparable by any documented rule: a tie
}

func sortKeyCmp(m *model.Model, sorts []models.SortOption, a, b uuid.UUID) int {
	for _, so := range sorts {
		av, aok := model.Lookup(m.Docs[a], so.Property)
		bv, bok := model.Lookup(m.Docs[b], so.Property)
		if aok && !bok {
			return -1
		}
		if !aok && bok {
			return 1
		}
		if !aok && !bok {
			continue
		}
		c := cmpSortVals(av, bv)
		if so.Descending {
			c = -c
		}
		if c != 0 {
			return c
		}
	}
	return 0
}

func (c06) RunCase(c fw.Case, env *fw.Env) *fw.CaseResult {
	res := fw.NewResult()
	schema := c06Schema()
	g := gen.New(c.Seed, schema)
	msgpackClient := c.Str("client", "json") == "msgpack"
	g.IntWidths = msgpackClient
	s, err := sx.Open(shardPath(env, "c06"), schema, newCacheManager("unlimited"), 0)
	if err != nil {
		res.Note("open: %v", err)
		res.Inconclusive++
		return res
	}
	defer s.Close()
	m := model.New()
	h := gen.NewHistory(g)
	h.MaxBatch = 40
	steps := c.Int("steps", 8)
	for step := 0; step < steps; step++ {
		op := h.Next(m)
		if step < 2 {
			op = gen.Op{Kind: gen.OpInsert, Tag: "seed-insert"}
			for i := 0; i < 30+g.R.IntN(30); i++ {
				op.Points = append(op.Points, model.Point{Id: g.NewId(), Doc: g.Doc()})
			}
		}
		if op.Kind == gen.OpInsert {
			for i := range op.Points {
				op.Points[i].Doc = c06Doc(g, op.Points[i].Doc, msgpackClient)
			}
		}
		ok, out := applyOp(res, "C06", s, m, op, step)
		if !ok {
			return res
		}
		h.Applied(op, out.Deleted)
	}
	dump, err := sx.DumpStore(s.Shard.VerifDiskStore(), schema)
	if err != nil {
		res.Violate("dump-error", "C06:dump", err.Error(), nil)
		return res
	}
	digest := dump.Digest()
	cx := &c06ctx{res: res, s: s, m: m, schema: schema, g: g, dump: dump}
	nReq := c.Int("requests", 60)
	for ri := 0; ri < nReq; ri++ {
		left := 1 + g.R.IntN(4)
		q := cx.genTree(3, &left)
		if ri%6 == 5 {
			q = cx.genLeaf(true) // bare leaf with select/sort/paging
		}
		req := models.SearchRequest{Query: q, Limit: 1 + g.R.IntN(100)}
		if g.R.IntN(3) == 0 {
			req.Limit = 100
		}
		// select
		switch g.R.IntN(4) {
		case 0:
		case 1:
			req.Select = []string{"*"}
		default:
			n := 1 + g.R.IntN(4)
			for i := 0; i < n; i++ {
				req.Select = append(req.Select, selectPool[g.R.IntN(len(selectPool))])
			}
		}
		// sort (keys must be selected)
		if g.R.IntN(3) == 0 {
			n := 1 + g.R.IntN(3)
			if g.R.IntN(10) == 0 {
				n = 10
			}
			for i := 0; i < n; i++ {
				so := models.SortOption{Property: sortPool[g.R.IntN(len(sortPool))], Descending: g.R.IntN(2) == 0}
				req.Sort = append(req.Sort, so)
				if len(req.Select) == 0 || req.Select[0] != "*" {
					sel := so.Property
					if i := strings.LastIndex(sel, "."); i > 0 && g.R.IntN(2) == 0 {
						// the key is reachable through a selected ancestor map just as well
						sel = sel[:i]
					}
					req.Select = append(req.Select, sel)
				}
			}
		}
		if g.R.IntN(3) == 0 {
			req.Offset = g.R.IntN(30)
		}
		if req.Validate() != nil || req.Query.ValidateSchema(schema) != nil {
			continue
		}
		cx.failed = ""
		cx.ambiguous = false
		want, ok := cx.evalTree(q)
		if cx.ambiguous {
			res.Stat("requests_skipped_tie_at_a_leaf_cut", 1)
			continue
		}
		if !ok {
			if cx.failed != "" {
				res.Violate("leaf-error", "C06:leaf-error", cx.failed, nil)
			}
			continue
		}
		composite := q.Property == "_and" || q.Property == "_or"
		if composite {
			// "ranked points come first ordered by that hybrid score, highest
			// first" holds for every composite request, also one with a
			// single sub-query
			sort.SliceStable(want.ranked, func(i, j int) bool { return want.ranked[i].hybrid > want.ranked[j].hybrid })
		}
		hits, err := s.Search(req)
		overlap := false
		if want.leaves >= 2 {
			// any id found by ranking and present in the final set
			overlap = len(want.ranked) > 0
		}
		res.Eval(overlap || len(req.Sort) > 0 || req.Offset > 0, digest, queryString(q), fmt.Sprint(req.Select), fmt.Sprint(req.Sort), req.Offset, req.Limit)
		res.Stat("requests", 1)
		if composite {
			res.Stat("composite_requests", 1)
		}
		desc := fmt.Sprintf("query %s select %v sort %v offset %d limit %d", queryString(q), req.Select, req.Sort, req.Offset, req.Limit)
		if err != nil {
			res.Violate("search-error", "C06:search-error:"+errClass(err), fmt.Sprintf("%s: request passed validation but failed: %v", desc, err), nil)
			continue
		}
		for _, p := range checkComposite(m, req, want, hits, composite) {
			res.Violate("composite-"+p.kind, "C06:"+p.kind, fmt.Sprintf("%s (expected set %d, ranked %d): %s", desc, len(want.set), len(want.ranked), p.msg), nil)
		}
		if ri == 0 {
			res.Sample(map[string]any{"request": desc, "expected_set": len(want.set), "expected_ranked": len(want.ranked), "returned": len(hits), "client": c.Str("client", "")})
		}
	}
	return res
}

func checkComposite(m *model.Model, req models.SearchRequest, want nodeRes, hits []sx.Hit, composite bool) []problem {
	var out []problem
	add := func(kind, format string, a ...any) {
		if len(out) < 8 {
			out = append(out, problem{kind, fmt.Sprintf(format, a...)})
		}
	}
	total := len(want.set)
	wantLen := max(0, min(req.Limit, total-req.Offset))
	if len(hits) != wantLen {
		add("page-size", "%d results, expected %d (set size %d, offset %d, limit %d)", len(hits), wantLen, total, req.Offset, req.Limit)
	}
	rankOf := map[uuid.UUID]rankedItem{}
	for _, r := range want.ranked {
		rankOf[r.id] = r
	}
	seen := map[uuid.UUID]bool{}
	for i, h := range hits {
		if seen[h.Id] {
			add("duplicate", "point %s twice on one page", h.Id)
		}
		seen[h.Id] = true
		if !want.set[h.Id] {
			docDesc := "<not live>"
			if d, live := m.Docs[h.Id]; live {
				docDesc = model.Describe(map[string]any(d))
			}
			add("not-in-set", "result %d (%s) is not in the %s of the sub-results; its document: %s", i, h.Id, map[bool]string{true: "union/intersection", false: "answer"}[composite], docDesc)
			continue
		}
		if r, ranked := rankOf[h.Id]; ranked {
			tol := float64(math.Max(math.Abs(float64(r.hybrid)), 1)) * 1e-5
			if math.Abs(float64(h.Hybrid)-float64(r.hybrid)) > tol {
				add("hybrid-sum", "result %d (%s): hybrid score %g, sum of weighted sub-scores is %g", i, h.Id, h.Hybrid, r.hybrid)
			}
		} else if h.Distance != nil || h.Score != nil || h.Hybrid != 0 {
			add("unranked-score", "result %d (%s) matched only filters but carries distance %s score %s hybrid %g", i, h.Id, f32(h.Distance), f32(h.Score), h.Hybrid)
		}
		// select
		doc := m.Docs[h.Id]
		switch {
		case len(req.Select) == 0:
			if h.Doc != nil {
				add("select", "result %d (%s): nothing selected but data came back: %s", i, h.Id, model.Describe(map[string]any(h.Doc)))
			}
		case req.Select[0] == "*" && len(req.Sort) == 0 || containsStar(req.Select):
			if h.DecodeErr != "" {
				add("select", "result %d (%s): document does not decode: %s", i, h.Id, h.DecodeErr)
			} else if !containsStarFirst(req.Select) && len(req.Sort) == 0 {
				// "*" not first: documented behaviour is unspecified, skip
			} else if !model.Equal(map[string]any(orEmpty(h.Doc)), map[string]any(doc)) {
				add("select", "result %d (%s): select * returned %s, stored document is %s", i, h.Id, model.Describe(map[string]any(orEmpty(h.Doc))), model.Describe(map[string]any(doc)))
			}
		default:
			for _, p := range req.Select {
				wv, wok := model.Lookup(doc, p)
				gv, gok := model.Lookup(orEmpty(h.Doc), p)
				if wok != gok || wok && !model.Equal(wv, gv) {
					add("select", "result %d (%s): selected path %q came back as %s (present=%v), stored value is %s (present=%v)", i, h.Id, p, model.Describe(gv), gok, model.Describe(wv), wok)
				}
			}
		}
	}
	if len(out) > 0 {
		return out
	}
	// order
	if len(req.Sort) > 0 {
		ids := make([]uuid.UUID, 0, len(want.set))
		for id := range want.set {
			ids = append(ids, id)
		}
		sort.SliceStable(ids, func(i, j int) bool {
			c := sortKeyCmp(m, req.Sort, ids[i], ids[j])
			if c != 0 {
				return c < 0
			}
			return ids[i].String() < ids[j].String()
		})
		for i, h := range hits {
			pos := req.Offset + i
			if pos >= len(ids) {
				break
			}
			if sortKeyCmp(m, req.Sort, h.Id, ids[pos]) != 0 {
				add("sort-order", "position %d of the sorted answer holds %s with keys %s, expected keys %s (sort %v, missing values last)", pos, h.Id, sortKeys(m, req.Sort, h.Id), sortKeys(m, req.Sort, ids[pos]), req.Sort)
				break
			}
		}
		return out
	}
	// no sort keys: ranked first by hybrid (highest first), unranked after
	nRanked := len(want.ranked)
	for i, h := range hits {
		pos := req.Offset + i
		_, ranked := rankOf[h.Id]
		if pos < nRanked && !ranked {
			add("ranked-first", "position %d holds unranked point %s although %d ranked points exist", pos, h.Id, nRanked)
			break
		}
		if pos >= nRanked && ranked {
			add("ranked-first", "position %d holds ranked point %s after the %d ranked positions", pos, h.Id, nRanked)
			break
		}
		if composite && pos < nRanked {
			exp := want.ranked[pos].hybrid
			tol := math.Max(math.Abs(float64(exp)), 1) * 1e-5
			if math.Abs(float64(h.Hybrid)-float64(exp)) > tol {
				add("hybrid-order", "position %d holds %s with hybrid %g; ordered by hybrid score (highest first) that position has %g", pos, h.Id, h.Hybrid, exp)
				break
			}
		}
	}
	return out
}

func containsStar(sel []string) bool {
	for _, s := range sel {
		if s == "*" {
			return true
		}
	}
	return false
}
func containsStarFirst(sel []string) bool { return len(sel) > 0 && sel[0] == "*" }

func orEmpty(d model.Doc) model.Doc {
	if d == nil {
		return model.Doc{}
	}
	return d
}

func sortKeys(m *model.Model, sorts []models.SortOption, id uuid.UUID) string {
	parts := []string{}
	for _, so := range sorts {
		v, ok := model.Lookup(m.Docs[id], so.Property)
		if !ok {
			parts = append(parts, "<missing>")
		} else {
			parts = append(parts, model.Describe(v))
		}
	}
	return "[" + strings.Join(parts, " ") + "]"
}
