package props

import (
	"os"

	"github.com/rs/zerolog"
)

// stderrLog receives write-ahead "CALL ..." lines so that a crash can be
// attributed to the operation that was in flight.
var stderrLog = os.Stderr

func init() {
	// semadb logs through the global zerolog logger; keep errors only.
	zerolog.SetGlobalLevel(zerolog.ErrorLevel)
}
