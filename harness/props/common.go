package props

import (
	"os"

	"github.com/rs/zerolog"
)

// stderrLog receives write-ahead "CALL ..." lines so that a crash can be
// attributed to the operation that was in flight.
var stderrLog = os.Stderr

func init() {
	// semadb logs through the global zerolog logger; keep errors only.
	zerolog.SetGlobalLevel(zerolog.ErrorLevel)
}

func cmpI(a, b int64) int {
	if a < b {
		return -1
	}
	if a > b {
		return 1
	}
	return 0
}

func cmpF(a, b float64) int {
	if a < b {
		return -1
	}
	if a > b {
		return 1
	}
	return 0
}
