package props

import (
	"context"
	"encoding/base64"
	"encoding/json"
	"errors"
	"fmt"
	"os"
	"os/exec"
	"sort"
	"strconv"
	"strings"
	"syscall"
	"time"

	"github.com/google/uuid"
	"github.com/semafind/semadb/diskstore"
	"github.com/semafind/semadb/models"
	"github.com/semafind/semadb/shard/cache"
	"semaverif/fw"
	"semaverif/gen"
	"semaverif/model"
	"semaverif/proxy"
	"semaverif/sx"
)

// C07: a write batch is all-or-nothing under rejection, storage faults and crashes.
type c07 struct{}

func init() {
	fw.Register(c07{})
	fw.Subcommands["c07kill"] = c07KillMain
}

func (c07) ID() string    { return "C07" }
func (c07) Level() string { return "fault_enumeration" }
func (c07) Rule() string {
	return "unit = (target batch, mode, k): a history prefix builds a file-backed shard with every index type and a warm shared cache; for each target batch (insert / update / delete of 1, 7 or 40 points) a first run under the storage proxy fails the transaction at commit and counts the K storage operations it issued; then mode 'fail' makes the k-th failable operation (put / delete / scan / bucket open) return an error, mode 'kill' SIGKILLs the process at the k-th operation (any kind), before commit and right after commit (separate child process per kill, on a byte copy of the prefix file), mode 'panic' makes the storage layer panic at the k-th operation (same child set-up: the process may die of it, or the call returns and then the file must hold exactly what the call reported), and mode 'reject' issues batches that validation must refuse (duplicate id, stored id at first/middle/last position, oversized merge, wrong field type for every index type). After every failure: battery answers, point count and raw bucket digest of the RUNNING instance must equal the pre-batch ones, and so must a cold instance opened on a copy of the file; after a kill at or after commit exactly the pre-state or exactly the post-state is accepted; a call that reported success must have all effects visible (model comparison, warm and cold). Quick samples k (incl. first and last) and then fails the first and the last occurrence of every operation class (bucket, kind, key class) the sampled positions missed, thorough enumerates every k. Non-trivial = the fault fired (the k-th operation existed); distinct by (batch hash, mode, faulted bucket, operation kind, key class) for fail and (batch hash, mode, k) for kill."
}
func (c07) Assumptions() []string {
	return []string{"SIGKILL realises 'the process dies at any instant'; torn writes on power loss are out of reach", "the k-th operation is not the same operation in every run (the pipeline is concurrent); coverage is the set of faulted (bucket, kind, key class)", "bucket reads (Get) cannot return an error in the storage interface, so they are kill points but not fail points"}
}
func (c07) Floor(tier string) int {
	if tier == "thorough" {
		return 3000
	}
	return 150
}
func (c07) Timeout(string) time.Duration { return 40 * time.Minute }
func (c07) Parallel(string) int          { return 16 }

func (c07) Cases(tier string, seed uint64) []fw.Case {
	kinds := []string{"insert", "update", "delete"}
	sizes := []int{1, 7, 40}
	reps := 1
	sample := 30
	kills := 10
	if tier == "thorough" {
		reps = 4
		sample = 0 // all
		kills = 60
	}
	var cs []fw.Case
	i := 0
	for r := 0; r < reps; r++ {
		for _, k := range kinds {
			for _, sz := range sizes {
				cs = append(cs, fw.Case{Seed: fw.CaseSeed(seed, "C07", i), Name: fmt.Sprintf("%s-%d", k, sz), Params: map[string]any{"kind": k, "size": sz, "sample": sample, "kills": kills}})
				i++
			}
		}
	}
	// batches larger than any internal slice / chunk / transaction size the implementation might use:
	// a fault or kill late in such a batch must still leave nothing behind (fault points are sampled,
	// also in the thorough tier: such a batch issues tens of thousands of storage operations)
	for r := 0; r < reps; r++ {
		for _, big := range []struct {
			kind string
			size int
		}{{"insert", 1100 + 300*r}, {"update", 700}, {"delete", 700}} {
			if r > 0 && big.kind != "insert" {
				continue
			}
			cs = append(cs, fw.Case{Seed: fw.CaseSeed(seed, "C07", i), Name: fmt.Sprintf("%s-%d", big.kind, big.size), Params: map[string]any{"kind": big.kind, "size": big.size, "sample": 24, "kills": 8, "prefix_points": 900}})
			i++
		}
	}
	return cs
}

type killSpec struct {
	Path   string   `json:"path"`
	Schema string   `json:"schema"` // "c07"
	Kind   string   `json:"kind"`
	Ids    []string `json:"ids"`
	Data   []string `json:"data"` // base64 msgpack per point
	Mode   int      `json:"mode"`
	K      int64    `json:"k"`
}

func c07Schema() models.IndexSchema { return c08Schema(false) }

// c07KillMain is the grandchild: open the copy, arm the proxy, run the batch, die.
func c07KillMain(args []string) int {
	data, err := os.ReadFile(args[0])
	if err != nil {
		fmt.Fprintln(os.Stderr, err)
		return 3
	}
	var spec killSpec
	if err := json.Unmarshal(data, &spec); err != nil {
		fmt.Fprintln(os.Stderr, err)
		return 3
	}
	schema := c07Schema()
	s, err := sx.Open(spec.Path, schema, cache.NewManager(-1), 0)
	if err != nil {
		fmt.Fprintln(os.Stderr, "open:", err)
		return 3
	}
	var px *proxy.Proxy
	s.Shard.VerifWrapDiskStore(func(ds diskstore.DiskStore) diskstore.DiskStore {
		px = proxy.Wrap(ds)
		return px
	})
	pts := make([]models.Point, len(spec.Ids))
	ids := make(map[uuid.UUID]struct{})
	for i, sid := range spec.Ids {
		u := uuid.MustParse(sid)
		ids[u] = struct{}{}
		pts[i].Id = u
		if i < len(spec.Data) {
			pts[i].Data, _ = base64.StdEncoding.DecodeString(spec.Data[i])
		}
	}
	px.Arm(proxy.Mode(spec.Mode), spec.K)
	switch spec.Kind {
	case "insert":
		err = s.Shard.InsertPoints(pts)
	case "update":
		_, err = s.Shard.UpdatePoints(pts)
	case "delete":
		_, err = s.Shard.DeletePoints(ids)
	}
	// still alive: the kill point did not exist (k beyond the last operation)
	all, _ := px.Counts()
	fmt.Printf("SURVIVED ops=%d fired=%v success=%v err=%v\n", all, px.Fired.Load(), err == nil, err)
	s.Close()
	return 0
}

type c07run struct {
	res    *fw.CaseResult
	env    *fw.Env
	schema models.IndexSchema
	g      *gen.G
	prefix string // pristine copy of the prefix file
	work   string
	s      *sx.Sx
	px     *proxy.Proxy
	cm     *cache.Manager
	m      *model.Model // state after the prefix
	bat    []batteryItem
	preAns []answer
	preDig uint64
	preDmp *sx.Dump
}

func (r *c07run) open() error {
	if r.s != nil {
		r.s.Close()
	}
	if err := sx.CopyFile(r.prefix, r.work); err != nil {
		return err
	}
	r.cm = cache.NewManager(-1)
	s, err := sx.Open(r.work, r.schema, r.cm, 4000)
	if err != nil {
		return err
	}
	r.s = s
	s.Shard.VerifWrapDiskStore(func(ds diskstore.DiskStore) diskstore.DiskStore {
		r.px = proxy.Wrap(ds)
		return r.px
	})
	// warm the shared cache the way a live instance would be
	for _, b := range r.bat {
		s.Search(b.req)
	}
	return nil
}

func (r *c07run) answers(s *sx.Sx) []answer {
	out := make([]answer, len(r.bat))
	for i, b := range r.bat {
		hits, err := s.Search(b.req)
		out[i] = answer{hits, err}
	}
	return out
}

// expectPre checks that the running instance and a cold copy answer as before the batch.
func (r *c07run) expectPre(what, sigTag string) bool {
	ok := true
	cnt, err := r.s.PointCount()
	if err != nil || int(cnt) != len(r.m.Docs) {
		r.res.Violate("not-atomic", "C07:count:"+sigTag, fmt.Sprintf("%s: the running instance reports %d points (err %v), %d before the failed batch", what, cnt, err, len(r.m.Docs)), nil)
		ok = false
	}
	d, err := sx.DumpStore(r.s.Shard.VerifDiskStore(), r.schema)
	if err != nil {
		r.res.Violate("dump-error", "C07:dump", err.Error(), nil)
		return false
	}
	if d.Digest() != r.preDig {
		r.res.Violate("not-atomic", "C07:raw-state:"+sigTag, fmt.Sprintf("%s: raw bucket contents of the running instance differ from the pre-batch contents: %v", what, r.preDmp.Diff(d, 6)), nil)
		ok = false
	}
	now := r.answers(r.s)
	for i, b := range r.bat {
		if diff := sameAnswer(r.preAns[i], now[i], !b.filterOnly); diff != "" {
			r.res.Violate("not-atomic", "C07:running-answers:"+sigTag+":"+leafKinds(b.req.Query), fmt.Sprintf("%s: request %s is answered differently by the running instance than before the failed batch: %s", what, b.desc, diff), nil)
			ok = false
			break
		}
	}
	// cold copy
	cp := r.work + ".cold"
	if err := sx.CopyFile(r.work, cp); err == nil {
		if cold, err := sx.Open(cp, r.schema, nil, 4000); err == nil {
			ca := r.answers(cold)
			for i, b := range r.bat {
				if diff := sameAnswer(r.preAns[i], ca[i], !b.filterOnly); diff != "" {
					r.res.Violate("not-atomic", "C07:cold-answers:"+sigTag+":"+leafKinds(b.req.Query), fmt.Sprintf("%s: request %s is answered differently after reopening the file than before the failed batch: %s", what, b.desc, diff), nil)
					ok = false
					break
				}
			}
			cold.Close()
		} else {
			r.res.Violate("reopen-error", "C07:reopen:"+sigTag, fmt.Sprintf("%s: the file does not reopen: %v", what, err), nil)
			ok = false
		}
		os.Remove(cp)
	}
	return ok
}

func applyRaw(s *sx.Sx, op gen.Op) error {
	switch op.Kind {
	case gen.OpInsert:
		return s.Insert(op.Points)
	case gen.OpUpdate:
		_, err := s.Update(op.Points)
		return err
	default:
		_, err := s.Delete(op.Ids)
		return err
	}
}

func opHash(op gen.Op) uint64 { return fw.Hash64(fmt.Sprint(describeOp(op)), op.Size()) }

func sampleKs(g *gen.G, n int64, sample int) []int64 {
	if n <= 0 {
		return nil
	}
	if sample <= 0 || int64(sample) >= n {
		out := make([]int64, n)
		for i := range out {
			out[i] = int64(i) + 1
		}
		return out
	}
	set := map[int64]bool{1: true, n: true, 2: true, n - 1: true}
	for len(set) < sample {
		set[1+g.R.Int64N(n)] = true
	}
	out := make([]int64, 0, len(set))
	for k := range set {
		if k >= 1 && k <= n {
			out = append(out, k)
		}
	}
	sort.Slice(out, func(i, j int) bool { return out[i] < out[j] })
	return out
}

func (c07) RunCase(c fw.Case, env *fw.Env) *fw.CaseResult {
	res := fw.NewResult()
	schema := c07Schema()
	g := gen.New(c.Seed, schema)
	g.NoLattice = true
	r := &c07run{res: res, env: env, schema: schema, g: g, prefix: shardPath(env, "prefix"), work: shardPath(env, "work")}
	// ---- prefix
	m := model.New()
	{
		s, err := sx.Open(r.prefix, schema, cache.NewManager(-1), 4000)
		if err != nil {
			res.Note("open: %v", err)
			res.Inconclusive++
			return res
		}
		h := gen.NewHistory(g)
		h.RejectProb = 0
		h.MaxBatch = 30
		for step := 0; step < 9; step++ {
			op := h.Next(m)
			if step < 3 {
				op = gen.Op{Kind: gen.OpInsert, Tag: "prefix-insert"}
				n := 35
				if step == 0 {
					n = max(n, c.Int("prefix_points", 0))
				}
				for i := 0; i < n; i++ {
					op.Points = append(op.Points, model.Point{Id: g.NewId(), Doc: g.Doc()})
				}
			}
			ok, out := applyOp(res, "C07", s, m, op, step)
			if !ok {
				s.Close()
				return res
			}
			h.Applied(op, out.Deleted)
		}
		s.Close()
	}
	r.m = m
	r.bat = buildBattery(g, m, schema, nil)
	if err := r.open(); err != nil {
		res.Note("open work copy: %v", err)
		res.Inconclusive++
		return res
	}
	defer func() { r.s.Close() }()
	r.preAns = r.answers(r.s)
	d, _ := sx.DumpStore(r.s.Shard.VerifDiskStore(), schema)
	r.preDmp, r.preDig = d, d.Digest()

	// ---- target batch
	size := c.Int("size", 7)
	var op gen.Op
	ids := m.SortedIds()
	g.R.Shuffle(len(ids), func(a, b int) { ids[a], ids[b] = ids[b], ids[a] })
	switch c.Str("kind", "insert") {
	case "insert":
		op = gen.Op{Kind: gen.OpInsert, Tag: "target-insert"}
		for i := 0; i < size; i++ {
			op.Points = append(op.Points, model.Point{Id: g.NewId(), Doc: g.Doc()})
		}
	case "update":
		op = gen.Op{Kind: gen.OpUpdate, Tag: "target-update"}
		for i := 0; i < size && i < len(ids); i++ {
			op.Points = append(op.Points, model.Point{Id: ids[i], Doc: g.UpdateDoc(m.Docs[ids[i]])})
		}
		// make sure vector indexes take part
		if len(op.Points) > 0 {
			op.Points[0].Doc["vec"] = g.Vector(5, models.DistanceEuclidean)
			op.Points[0].Doc["txt"] = "frodo ring wizard"
		}
	case "delete":
		op = gen.Op{Kind: gen.OpDelete, Tag: "target-delete", Ids: append([]uuid.UUID{}, ids[:min(size, len(ids))]...)}
	}
	post := m.Clone()
	switch op.Kind {
	case gen.OpInsert:
		post.Insert(op.Points)
	case gen.OpUpdate:
		post.Update(op.Points, 4000)
	case gen.OpDelete:
		post.Delete(op.Ids)
	}
	oh := opHash(op)

	// ---- fail at commit (also counts the operations)
	r.px.Arm(proxy.FailCommit, 0)
	err := applyRaw(r.s, op)
	allOps, failable := r.px.Counts()
	classes := r.px.ClassCounts()
	r.px.Disarm()
	res.Eval(true, oh, "fail-commit")
	res.Stat("faults_fired", 1)
	if err == nil {
		res.Violate("swallowed-error", "C07:swallowed:commit", fmt.Sprintf("%s of %d points: the storage commit failed but the call reported success", op.Kind, op.Size()), describeOp(op))
	} else if !errors.Is(err, proxy.ErrInjected) && !strings.Contains(err.Error(), "injected storage fault") {
		res.Note("fail-commit returned an unrelated error: %v", err)
	}
	if !r.expectPre(fmt.Sprintf("%s of %d points failed at commit", op.Kind, op.Size()), "commit") {
		return res
	}
	res.StatMax("max_ops_in_a_batch", allOps)
	res.Stat("storage_ops_counted", allOps)

	// ---- fail the k-th failable operation
	faulted := map[string]bool{}
	for _, k := range sampleKs(g, failable+2, c.Int("sample", 30)) {
		r.px.Arm(proxy.FailOp, k)
		err := applyRaw(r.s, op)
		fired := r.px.Fired.Load()
		info := r.px.FiredOp
		r.px.Disarm()
		if !fired {
			res.Stat("fault_points_beyond_last_op", 1)
			if err != nil {
				res.Violate("spurious-error", "C07:spurious:"+errClass(err), fmt.Sprintf("%s of %d points failed although no fault was injected (k=%d beyond the last operation): %v", op.Kind, op.Size(), k, err), nil)
				return res
			}
			// the batch succeeded: all effects must be visible, warm and cold
			if !checkStore(res, "C07:success", r.s, post, nil, int(k), true) {
				return res
			}
			cp := r.work + ".post"
			if sx.CopyFile(r.work, cp) == nil {
				if cold, err := sx.Open(cp, schema, nil, 4000); err == nil {
					checkStore(res, "C07:success-cold", cold, post, nil, int(k), false)
					cold.Close()
				}
				os.Remove(cp)
			}
			res.Eval(true, oh, "success")
			if err := r.open(); err != nil {
				res.Note("reopen work copy: %v", err)
				return res
			}
			continue
		}
		cls := info.Bucket + "|" + info.Kind + "|" + info.KeyCls
		faulted[cls] = true
		res.Eval(true, oh, "fail", cls)
		res.Stat("faults_fired", 1)
		if err == nil {
			res.Violate("swallowed-error", "C07:swallowed:"+info.Kind+":"+info.Bucket, fmt.Sprintf("%s of %d points: storage operation #%d (%s on %s, key class %s) returned an error but the call reported success", op.Kind, op.Size(), k, info.Kind, info.Bucket, info.KeyCls), describeOp(op))
			return res
		}
		if !r.expectPre(fmt.Sprintf("%s of %d points with storage operation #%d failing (%s on %s, key class %s)", op.Kind, op.Size(), k, info.Kind, info.Bucket, info.KeyCls), "op:"+info.Kind) {
			return res
		}
	}
	// ---- every class of failable operation the batch issued (bucket, kind, key class) that the
	// sampled positions did not hit is failed at its first and at its last occurrence
	clsNames := make([]string, 0, len(classes))
	for cls := range classes {
		clsNames = append(clsNames, cls)
	}
	sort.Strings(clsNames)
	for _, cls := range clsNames {
		if faulted[cls] {
			continue
		}
		ords := []int64{1}
		if n := classes[cls]; n > 1 {
			ords = append(ords, n)
		}
		for _, ord := range ords {
			r.px.ArmClass(cls, ord)
			err := applyRaw(r.s, op)
			fired := r.px.Fired.Load()
			info := r.px.FiredOp
			r.px.Disarm()
			if !fired {
				// the pipeline is concurrent: the class did not occur (that often) this time
				res.Stat("class_faults_not_reached", 1)
				if err != nil {
					res.Violate("spurious-error", "C07:spurious:"+errClass(err), fmt.Sprintf("%s of %d points failed although no fault was injected (class %s #%d did not occur): %v", op.Kind, op.Size(), cls, ord, err), nil)
					return res
				}
				if !checkStore(res, "C07:success", r.s, post, nil, int(ord), true) {
					return res
				}
				if err := r.open(); err != nil {
					res.Note("reopen work copy: %v", err)
					return res
				}
				continue
			}
			faulted[cls] = true
			res.Eval(true, oh, "fail-class", cls, ord)
			res.Stat("faults_fired", 1)
			res.Stat("class_directed_faults", 1)
			if err == nil {
				res.Violate("swallowed-error", "C07:swallowed:"+info.Kind+":"+info.Bucket, fmt.Sprintf("%s of %d points: occurrence %d of storage operation class %s returned an error but the call reported success", op.Kind, op.Size(), ord, cls), describeOp(op))
				return res
			}
			if !r.expectPre(fmt.Sprintf("%s of %d points with occurrence %d of storage operation class %s failing", op.Kind, op.Size(), ord, cls), "op:"+info.Kind) {
				return res
			}
		}
	}
	res.Stat("distinct_faulted_op_classes", int64(len(faulted)))

	// ---- validation rejections on the warm instance
	for _, rej := range rejections(g, m, schema) {
		err := applyRaw(r.s, rej)
		res.Eval(true, opHash(rej), "reject", rej.Tag)
		res.Stat("rejections", 1)
		if err == nil {
			res.Violate("not-rejected", "C07:not-rejected:"+rej.Tag, fmt.Sprintf("batch %s was accepted although it must be rejected", rej.Tag), describeOp(rej))
			return res
		}
		if !r.expectPre("rejected batch "+rej.Tag, "reject:"+rej.Tag) {
			return res
		}
	}

	// ---- kill points (grandchild per point, on a byte copy of the prefix)
	spec := killSpec{Schema: "c07", Kind: string(op.Kind)}
	if op.Kind == gen.OpDelete {
		for _, id := range op.Ids {
			spec.Ids = append(spec.Ids, id.String())
		}
	} else {
		for _, p := range op.Points {
			spec.Ids = append(spec.Ids, p.Id.String())
			spec.Data = append(spec.Data, base64.StdEncoding.EncodeToString(model.Encode(p.Doc)))
		}
	}
	type kp struct {
		mode proxy.Mode
		k    int64
	}
	kps := []kp{{proxy.KillBeforeCommit, 0}, {proxy.KillAfterCommit, 0}}
	for _, k := range sampleKs(g, allOps, c.Int("kills", 10)) {
		kps = append(kps, kp{proxy.KillOp, k})
	}
	// the storage layer panics at the k-th operation (an assertion of the store, a fault in mapped
	// memory): the process may die of it - then the file holds the pre-state - or the call returns,
	// and then what it reports must be what the file holds
	for _, k := range sampleKs(g, allOps, max(4, c.Int("kills", 10)/2)) {
		kps = append(kps, kp{proxy.PanicOp, k})
	}
	for i, p := range kps {
		kpath := fmt.Sprintf("%s.kill%d", r.work, i)
		if err := sx.CopyFile(r.prefix, kpath); err != nil {
			continue
		}
		spec.Path, spec.Mode, spec.K = kpath, int(p.mode), p.k
		sb, _ := json.Marshal(spec)
		specFile := kpath + ".json"
		os.WriteFile(specFile, sb, 0o644)
		// A child that neither dies nor comes back (a batch stuck after the injected event) is killed
		// after two minutes and judged like any other killed process: by what its file holds.
		cctx, ccancel := context.WithTimeout(context.Background(), 2*time.Minute)
		cmd := exec.CommandContext(cctx, env.Exe, "c07kill", specFile)
		outb, werr := cmd.CombinedOutput()
		timedOut := cctx.Err() == context.DeadlineExceeded
		ccancel()
		killed := false
		if ee, ok := werr.(*exec.ExitError); ok {
			if ws, ok := ee.Sys().(syscall.WaitStatus); ok && ws.Signaled() && ws.Signal() == syscall.SIGKILL {
				killed = true
			}
		}
		if timedOut {
			res.Stat("children_stuck_and_killed_after_2_minutes", 1)
		}
		modeName := map[proxy.Mode]string{proxy.KillOp: "kill-at-op", proxy.KillBeforeCommit: "kill-before-commit", proxy.KillAfterCommit: "kill-after-commit", proxy.PanicOp: "panic-at-op"}[p.mode]
		what := fmt.Sprintf("%s of %d points, process %s %d", op.Kind, op.Size(), modeName, p.k)
		survivedPanic, reportedSuccess := false, false
		if p.mode == proxy.PanicOp && !killed {
			switch {
			case werr != nil && strings.Contains(string(outb), "injected storage panic"):
				killed = true // died of the panic
				res.Stat("panics_that_killed_the_process", 1)
			case strings.Contains(string(outb), "SURVIVED") && strings.Contains(string(outb), "fired=true"):
				killed, survivedPanic = true, true // the call came back: judged below
				reportedSuccess = strings.Contains(string(outb), "success=true")
				res.Stat("panics_the_call_survived", 1)
			}
		}
		if !killed {
			if strings.Contains(string(outb), "SURVIVED") {
				res.Stat("kill_points_beyond_last_op", 1)
			} else {
				res.Violate("crash", "C07:kill-child:"+firstLine(string(outb)), fmt.Sprintf("%s: the child did not die by the injected SIGKILL: %v\n%s", what, werr, tailStr(string(outb), 1500)), nil)
			}
			os.Remove(kpath)
			os.Remove(specFile)
			continue
		}
		res.Eval(true, oh, modeName, strconv.FormatInt(p.k, 10))
		res.Stat("kills_fired", 1)
		cold, err := sx.Open(kpath, schema, nil, 4000)
		if err != nil {
			res.Violate("reopen-error", "C07:reopen-after-kill", fmt.Sprintf("%s: the file does not reopen: %v", what, err), nil)
			continue
		}
		cd, _ := sx.DumpStore(cold.Shard.VerifDiskStore(), schema)
		if cd != nil && cd.Digest() == r.preDig && !(survivedPanic && reportedSuccess) {
			res.Stat("kill_left_pre_state", 1)
			ca := r.answers(cold)
			for j, b := range r.bat {
				if diff := sameAnswer(r.preAns[j], ca[j], !b.filterOnly); diff != "" {
					res.Violate("not-atomic", "C07:after-kill-answers:"+modeName, fmt.Sprintf("%s: raw state equals the pre-state but request %s answers differently: %s", what, b.desc, diff), nil)
					break
				}
			}
		} else if p.mode == proxy.KillAfterCommit || survivedPanic && reportedSuccess {
			res.Stat("kill_left_post_state", 1)
			checkStore(res, "C07:after-kill-post", cold, post, nil, i, true)
			if cd != nil {
				for _, prob := range storeAndIndexInvariants(cd, schema, post) {
					res.Violate("not-atomic", "C07:after-kill-post:"+prob.kind, fmt.Sprintf("%s: %s", what, prob.msg), nil)
				}
			}
		} else {
			diff := []string{"(no dump)"}
			if cd != nil {
				diff = r.preDmp.Diff(cd, 6)
			}
			res.Violate("not-atomic", "C07:after-kill-raw:"+modeName, fmt.Sprintf("%s: after reopening, the raw bucket contents differ from the pre-batch contents although the call never reported success: %v", what, diff), nil)
		}
		cold.Close()
		os.Remove(kpath)
		os.Remove(specFile)
	}
	res.Sample(map[string]any{"target": describeOp(op), "storage_ops_in_batch": allOps, "failable_ops": failable, "faulted_op_classes": keysOf(faulted), "kill_points": len(kps)})
	return res
}

func keysOf(m map[string]bool) []string {
	out := make([]string, 0, len(m))
	for k := range m {
		out = append(out, k)
	}
	sort.Strings(out)
	return out
}

func firstLine(s string) string {
	for _, ln := range strings.Split(s, "\n") {
		if strings.HasPrefix(ln, "panic:") || strings.HasPrefix(ln, "fatal error:") {
			if len(ln) > 100 {
				ln = ln[:100]
			}
			return ln
		}
	}
	return "no-panic-line"
}

func tailStr(s string, n int) string {
	if len(s) > n {
		return s[len(s)-n:]
	}
	return s
}

// storeAndIndexInvariants: allocator/bijection + graph well-formedness for every vamana index.
func storeAndIndexInvariants(d *sx.Dump, schema models.IndexSchema, m *model.Model) []problem {
	out := pointStoreInvariants(d, m)
	for prop, sv := range schema {
		if sv.Type == models.IndexTypeVectorVamana {
			probs, _, _ := graphInvariants(d, prop, sv, m)
			out = append(out, probs...)
		}
	}
	return out
}

// rejections builds batches that validation must refuse.
func rejections(g *gen.G, m *model.Model, schema models.IndexSchema) []gen.Op {
	var out []gen.Op
	ids := m.SortedIds()
	fresh := func(n int) []model.Point {
		pts := make([]model.Point, n)
		for i := range pts {
			pts[i] = model.Point{Id: g.NewId(), Doc: g.Doc()}
		}
		return pts
	}
	// duplicate id in batch
	{
		pts := fresh(12)
		pts[9].Id = pts[3].Id
		out = append(out, gen.Op{Kind: gen.OpInsert, Points: pts, Tag: "duplicate-id-in-batch"})
	}
	// stored id at first / middle / last position
	if len(ids) > 0 {
		for _, pos := range []int{0, 10, 19} {
			pts := fresh(20)
			pts[pos].Id = ids[g.R.IntN(len(ids))]
			out = append(out, gen.Op{Kind: gen.OpInsert, Points: pts, Tag: fmt.Sprintf("stored-id-at-%d-of-20", pos)})
		}
		// oversized merge (limit 4000)
		big := strings.Repeat("x", 6000)
		upd := []model.Point{}
		for i := 0; i < min(5, len(ids)); i++ {
			upd = append(upd, model.Point{Id: ids[i], Doc: g.UpdateDoc(m.Docs[ids[i]])})
		}
		upd[len(upd)-1].Doc["blob"] = big
		out = append(out, gen.Op{Kind: gen.OpUpdate, Points: upd, Tag: "oversized-merge"})
	}
	// wrong field type for each index type, in an insert and in an update
	wrong := map[string]any{models.IndexTypeInteger: "seven", models.IndexTypeFloat: "1.5", models.IndexTypeString: int64(5), models.IndexTypeStringArray: "red", models.IndexTypeText: int64(1), models.IndexTypeVectorFlat: "vector", models.IndexTypeVectorVamana: []any{"a", "b"}}
	props := g.SortedProps()
	seenType := map[string]bool{}
	for _, p := range props {
		t := schema[p].Type
		if seenType[t] {
			continue
		}
		seenType[t] = true
		pts := fresh(8)
		pts[5].Doc[p] = wrong[t]
		out = append(out, gen.Op{Kind: gen.OpInsert, Points: pts, Tag: "wrong-type-insert:" + t})
		if len(ids) > 2 {
			upd := []model.Point{{Id: ids[0], Doc: model.Doc{"note": "fine"}}, {Id: ids[1], Doc: model.Doc{p: wrong[t]}}}
			out = append(out, gen.Op{Kind: gen.OpUpdate, Points: upd, Tag: "wrong-type-update:" + t})
		}
	}
	return out
}
