package props

import (
	"fmt"
	"math"
	"math/rand/v2"
	"net"
	"net/http"
	"net/rpc"
	"os"
	"path/filepath"
	"sort"
	"strings"
	"time"

	"github.com/google/uuid"
	"github.com/semafind/semadb/cluster"
	"github.com/semafind/semadb/cluster/mrpc"
	"github.com/semafind/semadb/models"
	"semaverif/fw"
	"semaverif/gen"
	"semaverif/httpx"
	"semaverif/model"
	"semaverif/sx"
)

// C17: multi-shard fan-out finds each point exactly once and merges results in order.
type c17 struct{}

func init() { fw.Register(c17{}) }

func (c17) ID() string    { return "C17" }
func (c17) Level() string { return "exploration" }
func (c17) Rule() string {
	return "unit = (deployment, request): deployments of 1..3 real nodes (RPC over loopback) x 1..6 shards per collection (forced by a small per-shard point limit); 80 requests per deployment rotate over the entry nodes: inserts (ids unique per collection), updates and deletes mixing stored / deleted / unknown ids, _id reads, filter searches, flat and vamana searches, searches with sort keys, limits and offsets; then (a) an update is refused by one shard (merge over the point size limit), (b) in every second deployment one shard file is overwritten with noise and its server restarted, (c) one shard server is taken down; update / delete / search are issued again in each state. One collection model for the whole deployment; the shard of every id is learned from per-shard reads. Refuted by: an _id read returning a stored point zero times or twice; sum of per-shard counts != model size; an update/delete failed list != requested - processed; 'not found' although a shard did not answer or 'shard unavailable' although all answered; a search with > limit results, a duplicate, a document or distance that disagrees with the model, hybrid / sort-key order violated; a filter-only search below every per-shard limit whose result set != model. Non-trivial = at least two shards on at least two servers hold matching points (or, on a single server, at least two shards); distinct by (topology, request)."
}
func (c17) Assumptions() []string {
	return []string{"with a node down a search may fail as a whole; a returned answer must still satisfy the invariants", "text scores use per-shard statistics and are not compared across shards", "offset semantics across shards are not part of the statement: only limit, duplicates, membership and order are judged"}
}
func (c17) Floor(tier string) int {
	if tier == "thorough" {
		return 4000
	}
	return 300
}
func (c17) Timeout(string) time.Duration { return 15 * time.Minute }
func (c17) Parallel(string) int          { return 8 }

func (c17) Cases(tier string, seed uint64) []fw.Case {
	n := 24
	if tier == "thorough" {
		n = 240
	}
	cs := make([]fw.Case, n)
	for i := range cs {
		cs[i] = fw.Case{Seed: fw.CaseSeed(seed, "C17", i), Name: fmt.Sprintf("deploy%d", i), Params: map[string]any{"nodes": 1 + i%3, "perShard": []int{1000, 12, 100, 8, 150, 20, 5}[i%7], "requests": 80}}
	}
	return cs
}

func c17Schema() models.IndexSchema {
	return models.IndexSchema{
		"vec":  gen.Vamana(3, models.DistanceEuclidean, 75, 64, 1.2, nil),
		"flat": gen.Flat(3, models.DistanceEuclidean, nil),
		"n":    gen.Int(),
		"s":    gen.Str(false),
	}
}

type c17run struct {
	res     *fw.CaseResult
	nodes   []*httpx.ProcNode
	clients []*httpx.Client // msgpack clients, one per node
	servers []string
	m       *model.Model
	g       *gen.G
	user    string
	colId   string
	plan    models.UserPlan
	schema  models.IndexSchema
	topo    string
	dead    []uuid.UUID
	downIdx int
	rpcs    map[string]*rpc.Client
}

type c17col struct {
	ShardIds []string
	Counts   []int64
}

// col reads the collection (shard ids and per-shard counts) through an entry node.
func (r *c17run) col(entry int) (c17col, error) {
	resp := r.clients[entry].Do("GET", "/v2/collections/"+r.colId, nil)
	if resp.Err != nil {
		return c17col{}, resp.Err
	}
	if resp.Status != 200 {
		return c17col{}, fmt.Errorf("GET collection answered %d %s", resp.Status, trimBody(resp.Body))
	}
	var out c17col
	if shards, ok := resp.JSON["shards"].([]any); ok {
		for _, s := range shards {
			m := s.(map[string]any)
			out.ShardIds = append(out.ShardIds, fmt.Sprint(m["id"]))
			pc, _ := m["pointCount"].(float64)
			out.Counts = append(out.Counts, int64(pc))
		}
	}
	return out, nil
}

func pointsBody(pts []model.Point) map[string]any {
	arr := make([]map[string]any, len(pts))
	for i, p := range pts {
		d := model.CloneDoc(p.Doc)
		d["_id"] = p.Id.String()
		arr[i] = d
	}
	return map[string]any{"points": arr}
}

type c17failed struct {
	ids  []uuid.UUID
	msgs map[string]bool
}

func parseFailedPoints(resp httpx.Response) c17failed {
	out := c17failed{msgs: map[string]bool{}}
	if arr, ok := resp.JSON["failedPoints"].([]any); ok {
		for _, e := range arr {
			if m, ok := e.(map[string]any); ok {
				if u, err := uuid.Parse(fmt.Sprint(m["id"])); err == nil {
					out.ids = append(out.ids, u)
				}
				out.msgs[fmt.Sprint(m["error"])] = true
			}
		}
	}
	return out
}

// search issues a search over HTTP and decodes the JSON answer into hits.
func (r *c17run) search(entry int, req models.SearchRequest) ([]sx.Hit, error) {
	cl := *r.clients[entry]
	cl.Msgpack = false
	resp := cl.Do("POST", "/v2/collections/"+r.colId+"/points/search", req)
	if resp.Err != nil {
		return nil, resp.Err
	}
	if resp.Status != 200 {
		return nil, fmt.Errorf("search answered %d %s", resp.Status, trimBody(resp.Body))
	}
	arr, _ := resp.JSON["points"].([]any)
	hits := make([]sx.Hit, 0, len(arr))
	for _, e := range arr {
		m, ok := e.(map[string]any)
		if !ok {
			continue
		}
		var h sx.Hit
		h.Id, _ = uuid.Parse(fmt.Sprint(m["_id"]))
		if d, ok := m["_distance"].(float64); ok {
			f := float32(d)
			h.Distance = &f
		}
		if sc, ok := m["_score"].(float64); ok {
			f := float32(sc)
			h.Score = &f
		}
		if hy, ok := m["_hybridScore"].(float64); ok {
			h.Hybrid = float32(hy)
		}
		doc := model.Doc{}
		for k, v := range m {
			if k == "_id" || k == "_distance" || k == "_score" || k == "_hybridScore" {
				continue
			}
			doc[k] = v
		}
		h.Doc = doc
		hits = append(hits, h)
	}
	return hits, nil
}

func (r *c17run) rpc(addr string) (*rpc.Client, error) {
	if c, ok := r.rpcs[addr]; ok {
		return c, nil
	}
	c, err := mrpc.DialHTTP("tcp", addr)
	if err != nil {
		return nil, err
	}
	r.rpcs[addr] = c
	return c, nil
}

// placement learns which shard holds each id by asking every shard separately
// (an RPC probe straight to the shard's server).
func (r *c17run) placement(col c17col) (map[uuid.UUID]string, bool) {
	out := map[uuid.UUID]string{}
	ids := r.m.SortedIds()
	ok := true
	mc := models.Collection{UserId: r.user, Id: r.colId, Replicas: 1, UserPlan: r.plan, IndexSchema: r.schema, ShardIds: col.ShardIds}
	for _, sid := range col.ShardIds {
		dest := cluster.RendezvousHash(sid, r.servers, 1)[0]
		client, err := r.rpc(dest)
		if err != nil {
			ok = false
			continue
		}
		for i := 0; i < len(ids); i += 50 {
			chunk := ids[i:min(i+50, len(ids))]
			req := cluster.RPCSearchPointsRequest{RPCRequestArgs: cluster.RPCRequestArgs{Source: "harness", Dest: dest},
				Collection: mc, ShardId: sid, SearchRequest: models.SearchRequest{Query: idQuery(chunk...), Limit: 100}}
			var resp cluster.RPCSearchPointsResponse
			if err := client.Call("ClusterNode.RPCSearchPoints", &req, &resp); err != nil {
				ok = false
				continue
			}
			for _, p := range resp.Points {
				if prev, dup := out[p.Id]; dup && prev != sid {
					r.res.Violate("stored-twice", "C17:stored-in-two-shards", fmt.Sprintf("point %s is stored in shard %s and in shard %s", p.Id, prev, sid), nil)
				}
				out[p.Id] = sid
			}
		}
	}
	return out, ok
}

func (r *c17run) checkSearch(entry int, col c17col, req models.SearchRequest, desc string, degraded bool) {
	res := r.res
	hits, err := r.search(entry, req)
	multi := len(col.ShardIds) >= 2
	res.Eval(multi, r.topo, desc, req.Limit, req.Offset)
	res.Stat("searches", 1)
	if err != nil {
		if degraded {
			res.Stat("searches_failed_while_node_down", 1)
			return
		}
		res.Violate("search-error", "C17:search-error:"+errClass(err), fmt.Sprintf("%s via %s failed although all servers are up: %v", desc, r.nodes[entry].RPCAddr, err), nil)
		return
	}
	if len(hits) > req.Limit {
		res.Violate("over-limit", "C17:over-limit", fmt.Sprintf("%s returned %d results for limit %d", desc, len(hits), req.Limit), nil)
	}
	seen := map[uuid.UUID]bool{}
	var lastH float32 = float32(math.Inf(1))
	for i, h := range hits {
		if seen[h.Id] {
			res.Violate("duplicate", "C17:duplicate", fmt.Sprintf("%s returned point %s twice", desc, h.Id), nil)
		}
		seen[h.Id] = true
		doc, live := r.m.Docs[h.Id]
		if !live {
			res.Violate("not-stored", "C17:not-stored", fmt.Sprintf("%s returned %s which is not stored", desc, h.Id), nil)
			continue
		}
		if len(req.Select) > 0 && req.Select[0] == "*" && len(req.Sort) == 0 {
			if !model.EqualLoose(map[string]any(orEmpty(h.Doc)), map[string]any(doc)) {
				res.Violate("document", "C17:document", fmt.Sprintf("%s: point %s came back as %s, stored is %s", desc, h.Id, model.Describe(map[string]any(orEmpty(h.Doc))), model.Describe(map[string]any(doc))), nil)
			}
		}
		if h.Distance != nil {
			field := "vec"
			var qv []float32
			if req.Query.VectorFlat != nil {
				field, qv = "flat", req.Query.VectorFlat.Vector
			} else if req.Query.VectorVamana != nil {
				qv = req.Query.VectorVamana.Vector
			}
			if v, ok := model.AsVector(doc, field); ok && qv != nil {
				d := model.Metric(models.DistanceEuclidean, qv, v)
				if math.Abs(float64(*h.Distance)-d.V) > d.Bound() {
					res.Violate("distance", "C17:distance", fmt.Sprintf("%s: point %s reported distance %g, true distance %g", desc, h.Id, *h.Distance, d.V), nil)
				}
			} else if qv != nil {
				res.Violate("not-a-candidate", "C17:no-vector", fmt.Sprintf("%s: point %s has no %s vector but was returned by a vector search", desc, h.Id, field), nil)
			}
		}
		if len(req.Sort) == 0 && multi {
			if h.Hybrid > lastH {
				res.Violate("merge-order", "C17:hybrid-order", fmt.Sprintf("%s: results %d,%d are not ordered by hybrid score: %g then %g", desc, i-1, i, lastH, h.Hybrid), nil)
			}
			lastH = h.Hybrid
		}
	}
	if len(req.Sort) > 0 {
		for i := 1; i < len(hits); i++ {
			if _, ok1 := r.m.Docs[hits[i-1].Id]; !ok1 {
				continue
			}
			if _, ok2 := r.m.Docs[hits[i].Id]; !ok2 {
				continue
			}
			if sortKeyCmp(r.m, req.Sort, hits[i-1].Id, hits[i].Id) > 0 {
				res.Violate("merge-order", "C17:sort-order", fmt.Sprintf("%s: results %d,%d violate the sort keys %v: %s then %s", desc, i-1, i, req.Sort, sortKeys(r.m, req.Sort, hits[i-1].Id), sortKeys(r.m, req.Sort, hits[i].Id)), nil)
				break
			}
		}
	}
	// filter-only query with few matches: exact set
	if !hasRanking(req.Query) && !degraded && req.Offset == 0 {
		want, ok := r.m.Select(r.schema, req.Query)
		if ok && len(want) <= 10 && req.Limit >= 100 {
			if len(want) != len(seen) {
				res.Violate("fanout-set", "C17:filter-set", fmt.Sprintf("%s returned %d points, the model selects %d", desc, len(seen), len(want)), nil)
			} else {
				for id := range want {
					if !seen[id] {
						res.Violate("fanout-set", "C17:filter-set", fmt.Sprintf("%s misses stored point %s", desc, id), nil)
						break
					}
				}
			}
		}
	}
}

func (r *c17run) checkIdReads(entry int, col c17col, degraded bool, down map[string]bool, place map[uuid.UUID]string) {
	ids := r.m.SortedIds()
	probe := append([]uuid.UUID{}, ids...)
	probe = append(probe, r.dead...)
	probe = append(probe, r.g.NewId())
	// chunks stay below the node's maximum per-shard search limit (75)
	for i := 0; i < len(probe); i += 50 {
		chunk := probe[i:min(i+50, len(probe))]
		hits, err := r.search(entry, models.SearchRequest{Query: idQuery(chunk...), Limit: 100, Select: []string{"*"}})
		r.res.Eval(len(col.ShardIds) >= 2, r.topo, "id-read", i, len(chunk), degraded)
		if err != nil {
			if !degraded {
				r.res.Violate("search-error", "C17:id-read-error:"+errClass(err), fmt.Sprintf("_id read via %s failed: %v", r.nodes[entry].RPCAddr, err), nil)
			}
			continue
		}
		count := map[uuid.UUID]int{}
		for _, h := range hits {
			count[h.Id]++
			if doc, live := r.m.Docs[h.Id]; !live {
				r.res.Violate("not-stored", "C17:id-read-phantom", fmt.Sprintf("_id read returned %s which is not stored", h.Id), nil)
			} else if !model.EqualLoose(map[string]any(orEmpty(h.Doc)), map[string]any(doc)) {
				r.res.Violate("document", "C17:id-read-document", fmt.Sprintf("_id read of %s returned %s, stored is %s", h.Id, model.Describe(map[string]any(orEmpty(h.Doc))), model.Describe(map[string]any(doc))), nil)
			}
		}
		for _, id := range chunk {
			_, live := r.m.Docs[id]
			expect := 0
			if live {
				expect = 1
				if degraded && down[place[id]] {
					continue
				}
			}
			if count[id] != expect {
				r.res.Violate("not-exactly-once", "C17:id-read-count", fmt.Sprintf("_id read via %s found %s %d times, expected %d (shards %d)", r.nodes[entry].RPCAddr, id, count[id], expect, len(col.ShardIds)), nil)
			}
		}
	}
}

// waitTCP waits until addr accepts connections.
func waitTCP(addr string, timeout time.Duration) error {
	deadline := time.Now().Add(timeout)
	for {
		conn, err := net.DialTimeout("tcp", addr, time.Second)
		if err == nil {
			conn.Close()
			return nil
		}
		if time.Now().After(deadline) {
			return fmt.Errorf("rpc port %s does not accept connections: %v", addr, err)
		}
		time.Sleep(50 * time.Millisecond)
	}
}

// startProcCluster starts n node processes that know each other.
func startProcCluster(env *fw.Env, n int, perShard int64, plans map[string]models.UserPlan, extraEnv []string) ([]*httpx.ProcNode, []string, error) {
	ports, err := httpx.FreePorts(2 * n)
	if err != nil {
		return nil, nil, err
	}
	servers := make([]string, n)
	for i := 0; i < n; i++ {
		servers[i] = fmt.Sprintf("localhost:%d", ports[i])
	}
	nodes := make([]*httpx.ProcNode, n)
	for i := 0; i < n; i++ {
		dir := filepath.Join(env.Dir, fmt.Sprintf("node%d", i))
		spec := httpx.NodeSpec{HTTPPort: ports[n+i], Plans: plans, Cluster: cluster.ClusterNodeConfig{
			RootDir: dir, RpcHost: "localhost", RpcPort: ports[i], RpcTimeout: 5, RpcRetries: 1, Servers: servers,
			ShardManager: cluster.ShardManagerConfig{RootDir: dir, ShardTimeout: 300, MaxCacheSize: []int64{-1, 30000, 1 << 30}[(int(perShard)+n)%3]},
			MaxShardSize: 1 << 31, MaxShardPointCount: perShard, MaxSearchLimit: 75}}
		nodes[i] = httpx.NewProcNode(env.Exe, env.Dir, fmt.Sprintf("node%d", i), spec)
		nodes[i].Env = extraEnv
		if err := nodes[i].Start(); err != nil {
			return nodes, servers, err
		}
	}
	for _, nd := range nodes {
		if err := nd.WaitHTTP(30 * time.Second); err != nil {
			return nodes, servers, fmt.Errorf("%v\n%s", err, tailStr(nd.Log(), 1500))
		}
	}
	// the rpc listener of a node is bound by a goroutine of its own: on a loaded machine the HTTP API
	// can answer before it does (start-up order is not what these checks are about)
	for _, srv := range servers {
		if err := waitTCP(srv, 20*time.Second); err != nil {
			return nodes, servers, err
		}
	}
	return nodes, servers, nil
}

func (c17) RunCase(c fw.Case, env *fw.Env) *fw.CaseResult {
	res := fw.NewResult()
	nNodes := c.Int("nodes", 1)
	perShard := int64(c.Int("perShard", 12))
	plan := models.UserPlan{Name: "p", MaxCollections: 5, MaxCollectionPointCount: 1500, MaxPointSize: 1 << 16}
	nodes, servers, err := startProcCluster(env, nNodes, perShard, map[string]models.UserPlan{"P": plan}, nil)
	defer func() {
		for _, n := range nodes {
			if n != nil {
				n.Kill()
			}
		}
	}()
	if err != nil {
		res.Note("cluster: %v", err)
		res.Inconclusive++
		return res
	}
	schema := c17Schema()
	r := &c17run{res: res, nodes: nodes, servers: servers, m: model.New(), g: gen.New(c.Seed, schema), user: "carol", colId: "fanout", schema: schema, plan: plan, downIdx: -1, rpcs: map[string]*rpc.Client{}}
	r.g.NoLattice = true
	r.g.PresentProb = 0.9
	r.g.ExtraProb = 0
	for _, n := range nodes {
		cl := httpx.NewClient(n.HTTPAddr, r.user, "P")
		cl.Msgpack = true
		r.clients = append(r.clients, cl)
	}
	{
		cl := *r.clients[0]
		cl.Msgpack = false
		resp := cl.Do("POST", "/v2/collections", map[string]any{"id": r.colId, "indexSchema": schema})
		if resp.Status != 200 {
			res.Violate("setup", "C17:create", fmt.Sprintf("create collection answered %d %s %v", resp.Status, trimBody(resp.Body), resp.Err), nil)
			return res
		}
	}
	rng := rand.New(rand.NewPCG(c.Seed, 17))
	nReq := c.Int("requests", 80)
	forcedOp := -1
	var forcedIds []uuid.UUID
	step := func(i int, degraded bool, down map[string]bool, place map[uuid.UUID]string) bool {
		entry := i % len(nodes)
		if entry == r.downIdx {
			entry = (entry + 1) % len(nodes)
		}
		col, err := c17col{}, error(nil)
		if forcedIds != nil {
			// a directed request must be the first thing this entry node sends after the outage
			col = c17col{ShardIds: placeShards(place)}
		} else {
			col, err = r.col(entry)
		}
		if err != nil {
			if degraded {
				res.Stat("collection_reads_failed_while_node_down", 1)
				// the shard list is still needed: fall back to the last known one
				col = c17col{ShardIds: placeShards(place)}
			} else {
				res.Violate("setup", "C17:get-collection:"+errClass(err), err.Error(), nil)
				return false
			}
		}
		r.topo = fmt.Sprintf("%dnodes-%dshards", len(nodes), len(col.ShardIds))
		ids := r.m.SortedIds()
		mix := func(n int) []uuid.UUID {
			if forcedIds != nil {
				return forcedIds
			}
			out := []uuid.UUID{}
			seen := map[uuid.UUID]bool{}
			for j := 0; j < n; j++ {
				var id uuid.UUID
				switch {
				case rng.IntN(5) == 0:
					id = r.g.NewId()
				case rng.IntN(5) == 0 && len(r.dead) > 0:
					id = r.dead[rng.IntN(len(r.dead))]
				case len(ids) > 0:
					id = ids[rng.IntN(len(ids))]
				default:
					id = r.g.NewId()
				}
				if !seen[id] {
					seen[id] = true
					out = append(out, id)
				}
			}
			return out
		}
		cl := r.clients[entry]
		opDraw := rng.IntN(10)
		if forcedOp >= 0 {
			opDraw = forcedOp
		}
		switch op := opDraw; {
		case op == 11: // an insert that would exceed the point quota, while a shard server is down
			n := int(r.plan.MaxCollectionPointCount) - len(r.m.Docs) + 1
			if n < 1 || n > 3000 {
				break
			}
			pts := make([]model.Point, n)
			for j := range pts {
				pts[j] = model.Point{Id: r.g.NewId(), Doc: model.Doc{"n": int64(j)}}
			}
			resp := cl.Do("POST", "/v2/collections/"+r.colId+"/points", pointsBody(pts))
			res.Stat("over_quota_inserts_while_degraded", 1)
			res.Eval(true, r.topo, "over-quota-insert-degraded", i)
			// refused means refused without side effects. Reads of the collection fail as a whole while a
			// shard server is down, so the answer itself is judged: a 200 whose failed ranges do not
			// cover the whole batch says that points beyond the quota were stored
			if resp.Status == 200 {
				failedPts := 0
				if fr, ok := resp.JSON["failedRanges"].([]any); ok {
					for _, e := range fr {
						if m, ok := e.(map[string]any); ok {
							st, _ := m["start"].(float64)
							en, _ := m["end"].(float64)
							failedPts += int(en - st)
						}
					}
				}
				if failedPts < n {
					res.Violate("quota", "C17:over-quota-insert-stored-while-degraded", fmt.Sprintf("the collection holds %d points (quota %d); an insert of %d more via node %d while a shard server is down answered %d %s: %d of the new points were stored", len(r.m.Docs), r.plan.MaxCollectionPointCount, n, entry, resp.Status, trimBody(resp.Body), n-failedPts), nil)
					return false
				}
			}
		case op <= 2 && !degraded: // insert
			n := 1 + rng.IntN(25)
			pts := make([]model.Point, n)
			for j := range pts {
				pts[j] = model.Point{Id: r.g.NewId(), Doc: r.g.Doc()}
				// unindexed sort playground: floats that are whole numbers next to floats that are not (a
				// number must keep its kind and its order on the way through every shard server), and
				// integers of several magnitudes
				if rng.IntN(8) != 0 {
					pts[j].Doc["price"] = []float64{10, 10.5, 3, 2.25, -1, 7.75, 1e6, 0, 0.5, -2.5, 100, 99.99}[rng.IntN(12)]
				}
				if rng.IntN(8) != 0 {
					pts[j].Doc["rank"] = []int64{-300, -1, 0, 1, 7, 127, 128, 255, 256, 70000, 1 << 40}[rng.IntN(11)]
				}
			}
			resp := cl.Do("POST", "/v2/collections/"+r.colId+"/points", pointsBody(pts))
			res.Stat("inserts", 1)
			fr, _ := resp.JSON["failedRanges"].([]any)
			if resp.Status != 200 || len(fr) > 0 {
				res.Violate("insert", "C17:insert", fmt.Sprintf("insert of %d fresh points via node %d answered %d %s %v", n, entry, resp.Status, trimBody(resp.Body), resp.Err), nil)
				return false
			}
			r.m.Insert(pts)
			col2, err := r.col(entry)
			if err == nil {
				var sum int64
				for _, cnt := range col2.Counts {
					sum += cnt
					if cnt > perShard {
						res.Violate("limit", "C17:shard-over-limit", fmt.Sprintf("a shard holds %d points, the per-shard maximum is %d", cnt, perShard), nil)
					}
				}
				res.Eval(len(col2.Counts) >= 2, r.topo, "count", sum)
				if int(sum) != len(r.m.Docs) {
					res.Violate("lost-or-duplicated", "C17:count", fmt.Sprintf("after an insert the shards hold %d points in total, the model %d (%d shards)", sum, len(r.m.Docs), len(col2.Counts)), nil)
				}
			}
		case op == 3: // update
			up := mix(1 + rng.IntN(8))
			pts := make([]model.Point, len(up))
			for j, id := range up {
				pts[j] = model.Point{Id: id, Doc: model.Doc{"n": r.g.IntValue(), "note": fmt.Sprintf("u%d", i)}}
			}
			resp := cl.Do("PUT", "/v2/collections/"+r.colId+"/points", pointsBody(pts))
			res.Stat("updates", 1)
			res.Eval(len(col.ShardIds) >= 2, r.topo, "update", i)
			if resp.Status != 200 {
				res.Violate("update", "C17:update-status", fmt.Sprintf("update answered %d %s %v", resp.Status, trimBody(resp.Body), resp.Err), nil)
				return false
			}
			failed := parseFailedPoints(resp)
			var want []uuid.UUID
			for _, p := range pts {
				_, live := r.m.Docs[p.Id]
				if !live || degraded && down[place[p.Id]] {
					want = append(want, p.Id)
				} else {
					r.m.Update([]model.Point{p}, 0)
				}
			}
			r.checkFailedList("update", failed.ids, want, failed.msgs, degraded, len(failed.ids) > 0)
		case op == 4: // delete
			del := mix(1 + rng.IntN(8))
			if forcedIds == nil && len(del) >= 2 && rng.IntN(4) == 0 {
				// the API does not ask for distinct ids: name one or two of them again, somewhere
				for k := 0; k < 1+rng.IntN(2); k++ {
					again := del[rng.IntN(len(del))]
					at := rng.IntN(len(del) + 1)
					del = append(del[:at], append([]uuid.UUID{again}, del[at:]...)...)
				}
				res.Stat("deletes_naming_an_id_twice", 1)
			}
			strs := make([]string, len(del))
			for j, id := range del {
				strs[j] = id.String()
			}
			resp := cl.Do("DELETE", "/v2/collections/"+r.colId+"/points", map[string]any{"ids": strs})
			res.Stat("deletes", 1)
			res.Eval(len(col.ShardIds) >= 2, r.topo, "delete", i)
			if resp.Status != 200 {
				res.Violate("delete", "C17:delete-status", fmt.Sprintf("delete answered %d %s %v", resp.Status, trimBody(resp.Body), resp.Err), nil)
				return false
			}
			failed := parseFailedPoints(resp)
			var want []uuid.UUID
			judged := map[uuid.UUID]bool{}
			for _, id := range del {
				if judged[id] {
					continue // named twice: the failed list is compared as a set
				}
				judged[id] = true
				_, live := r.m.Docs[id]
				if !live || degraded && down[place[id]] {
					want = append(want, id)
				} else {
					r.m.Delete([]uuid.UUID{id})
					r.dead = append(r.dead, id)
				}
			}
			r.checkFailedList("delete", dedupIds(failed.ids), want, failed.msgs, degraded, len(failed.ids) > 0)
		case op == 5:
			r.checkIdReads(entry, col, degraded, down, place)
		default:
			var q models.Query
			switch rng.IntN(5) {
			case 0:
				q = intQ("n", cmpOps[rng.IntN(len(cmpOps))], gen.IntPool[rng.IntN(len(gen.IntPool))], 0)
			case 1:
				q = strQ("s", models.OperatorEquals, gen.StringPool[rng.IntN(len(gen.StringPool))], "")
			case 2:
				q = models.Query{Property: "flat", VectorFlat: &models.SearchVectorFlatOptions{Vector: r.g.Vector(3, models.DistanceEuclidean), Operator: models.OperatorNear, Limit: 1 + rng.IntN(40), Weight: weights[rng.IntN(len(weights))]}}
			default:
				ss := []int{25, 75}[rng.IntN(2)]
				q = models.Query{Property: "vec", VectorVamana: &models.SearchVectorVamanaOptions{Vector: r.g.Vector(3, models.DistanceEuclidean), Operator: models.OperatorNear, SearchSize: ss, Limit: 1 + rng.IntN(ss), Weight: weights[rng.IntN(len(weights))]}}
			}
			req := models.SearchRequest{Query: q, Limit: []int{100, 100, 10, 3, 50}[rng.IntN(5)], Select: []string{"*"}}
			if rng.IntN(3) == 0 {
				req.Select = []string{"n", "s", "price", "rank"}
				switch rng.IntN(4) {
				case 0:
					req.Sort = []models.SortOption{{Property: "n", Descending: rng.IntN(2) == 0}, {Property: "s"}}
				case 1:
					req.Sort = []models.SortOption{{Property: "price", Descending: rng.IntN(2) == 0}}
				case 2:
					req.Sort = []models.SortOption{{Property: "rank", Descending: rng.IntN(2) == 0}, {Property: "price"}}
				default:
					req.Sort = []models.SortOption{{Property: "price"}, {Property: "n", Descending: true}}
				}
			}
			if rng.IntN(6) == 0 {
				req.Offset = rng.IntN(7)
			}
			desc := fmt.Sprintf("search %s sort %v offset %d limit %d", queryString(q), req.Sort, req.Offset, req.Limit)
			if req.Validate() == nil && q.ValidateSchema(schema) == nil {
				r.checkSearch(entry, col, req, desc, degraded)
			}
		}
		return len(res.Violations) < 8
	}
	for i := 0; i < nReq; i++ {
		if !step(i, false, nil, nil) {
			return res
		}
	}
	col, err := r.col(0)
	if err != nil {
		res.Violate("setup", "C17:get-collection:"+errClass(err), err.Error(), nil)
		return res
	}
	r.checkIdReads(0, col, false, nil, nil)
	place, okp := r.placement(col)
	if okp {
		for id := range r.m.Docs {
			if _, ok := place[id]; !ok {
				res.Violate("lost", "C17:no-shard-holds", fmt.Sprintf("stored point %s is held by no shard", id), nil)
			}
		}
		res.Stat("placements_learned", int64(len(place)))
	}
	// ---- one shard refuses a request while every server is up: an update whose merge would make a
	// stored point larger than the plan allows is refused by the shard that holds the point, for the
	// whole request. The other shards (also those on the same server) answer. Nothing of that
	// request may then be reported 'not found': not every shard answered.
	if okp && len(col.ShardIds) >= 2 && len(r.m.Docs) > 0 {
		ids := r.m.SortedIds()
		victim := ids[rng.IntN(len(ids))]
		vs := place[victim]
		cl := httpx.NewClient(nodes[rng.IntN(len(nodes))].HTTPAddr, r.user, "P")
		cl.Msgpack = true
		blob := strings.Repeat("x", 40<<10)
		grow := []model.Point{{Id: victim, Doc: model.Doc{"blob": blob}}}
		resp := cl.Do("PUT", "/v2/collections/"+r.colId+"/points", pointsBody(grow))
		if resp.Status != 200 || len(parseFailedPoints(resp).ids) > 0 {
			res.Violate("update", "C17:grow-update", fmt.Sprintf("update adding a 40 kB field to a stored point answered %d %s %v", resp.Status, trimBody(resp.Body), resp.Err), nil)
			return res
		}
		r.m.Update(grow, 0)
		pts := []model.Point{{Id: victim, Doc: model.Doc{"blob2": blob}}}
		same, other := 0, 0
		for _, id := range ids {
			if id == victim {
				continue
			}
			if place[id] == vs && same < 3 {
				same++
				pts = append(pts, model.Point{Id: id, Doc: model.Doc{"note": "with-oversize"}})
			} else if place[id] != vs && other < 4 {
				other++
				pts = append(pts, model.Point{Id: id, Doc: model.Doc{"note": "with-oversize"}})
			}
		}
		pts = append(pts, model.Point{Id: r.g.NewId(), Doc: model.Doc{"note": "unknown"}})
		rng.Shuffle(len(pts), func(a, b int) { pts[a], pts[b] = pts[b], pts[a] })
		resp = cl.Do("PUT", "/v2/collections/"+r.colId+"/points", pointsBody(pts))
		res.Stat("updates_refused_by_one_shard", 1)
		sameServer := false
		for _, sid := range col.ShardIds {
			if sid != vs && cluster.RendezvousHash(sid, servers, 1)[0] == cluster.RendezvousHash(vs, servers, 1)[0] {
				sameServer = true
			}
		}
		if sameServer {
			res.Stat("refusing_shard_had_an_answering_neighbour_on_its_server", 1)
		}
		res.Eval(true, r.topo, "update-one-shard-refuses", same, other)
		if resp.Status != 200 {
			res.Violate("update", "C17:update-status", fmt.Sprintf("update with one oversize merge answered %d %s %v", resp.Status, trimBody(resp.Body), resp.Err), nil)
			return res
		}
		failed := parseFailedPoints(resp)
		var want []uuid.UUID
		for _, p := range pts {
			_, live := r.m.Docs[p.Id]
			if !live || place[p.Id] == vs {
				want = append(want, p.Id)
			} else {
				r.m.Update([]model.Point{p}, 0)
			}
		}
		if len(failed.ids) != len(want) {
			where := []string{}
			for _, p := range pts {
				where = append(where, fmt.Sprintf("%s in %s", p.Id, place[p.Id]))
			}
			logs := []string{}
			for i, n := range nodes {
				logs = append(logs, fmt.Sprintf("node%d: %s", i, lastErrorLines(n.Log(), 6)))
			}
			res.Note("update refused by one shard: refusing shard %s; request %v; answer %s; LOG %v", vs, where, string(resp.Body), logs)
		}
		r.checkFailedList("update-refused-by-one-shard", failed.ids, want, failed.msgs, true, len(failed.ids) > 0)
		r.checkIdReads(0, col, false, nil, nil)
	}
	// ---- one shard damaged while every server is up: the server that holds the most shards of the
	// collection is stopped, one of its shard files is overwritten with noise, and it is started again.
	// That shard cannot be opened any more and fails every request; its neighbours on the same server
	// answer. Updates and deletes must fail exactly the ids of that shard (and unknown ones), never as
	// 'not found'; reads find every other point exactly once.
	damaged := map[string]bool{}
	if okp && len(col.ShardIds) >= 2 && c.Idx%2 == 0 {
		perServer := map[string][]string{}
		for _, sid := range col.ShardIds {
			srv := cluster.RendezvousHash(sid, servers, 1)[0]
			perServer[srv] = append(perServer[srv], sid)
		}
		holds := map[string]int{}
		for _, sid := range place {
			holds[sid]++
		}
		k, ds := -1, ""
		for i, n := range nodes {
			mine := perServer[n.RPCAddr]
			sort.Strings(mine)
			cand := ""
			for _, sid := range mine {
				if holds[sid] > 0 {
					cand = sid
					break
				}
			}
			if cand != "" && (k < 0 || len(mine) > len(perServer[nodes[k].RPCAddr])) {
				k, ds = i, cand
			}
		}
		if k >= 0 {
			file := filepath.Join(env.Dir, fmt.Sprintf("node%d", k), "userCollections", r.user, r.colId, ds, "sharddb.bbolt")
			if _, err := os.Stat(file); err != nil {
				res.Note("damaged-shard scenario: %v", err)
				res.Inconclusive++
				return res
			}
			if err := nodes[k].Term(40 * time.Second); err != nil {
				res.Violate("shutdown", "C17:shutdown", err.Error(), nil)
				return res
			}
			noise := make([]byte, 32<<10)
			for i := range noise {
				noise[i] = byte(rng.Uint32())
			}
			os.WriteFile(file, noise, 0o644)
			if err := nodes[k].Start(); err == nil {
				err = nodes[k].WaitHTTP(30 * time.Second)
				if err != nil {
					res.Violate("restart", "C17:restart-with-damaged-shard", fmt.Sprintf("a server holding one unreadable shard file does not come up again: %v\n%s", err, tailStr(nodes[k].Log(), 1200)), nil)
					return res
				}
			}
			if err := waitTCP(nodes[k].RPCAddr, 20*time.Second); err != nil {
				res.Note("damaged-shard scenario: %v", err)
				res.Inconclusive++
				return res
			}
			http.DefaultTransport.(*http.Transport).CloseIdleConnections()
			damaged[ds] = true
			res.Stat("deployments_with_a_damaged_shard", 1)
			if len(perServer[nodes[k].RPCAddr]) >= 2 {
				res.Stat("damaged_shard_had_neighbours_on_its_server", 1)
			}
			// directed requests: one id of the damaged shard, one of a neighbour on the same server,
			// one from elsewhere, one unknown
			pick := func() []uuid.UUID {
				var inDs, neigh, other []uuid.UUID
				for _, id := range r.m.SortedIds() {
					switch sid := place[id]; {
					case sid == ds:
						inDs = append(inDs, id)
					case cluster.RendezvousHash(sid, servers, 1)[0] == nodes[k].RPCAddr:
						neigh = append(neigh, id)
					default:
						other = append(other, id)
					}
				}
				out := []uuid.UUID{}
				for _, l := range [][]uuid.UUID{inDs, neigh, other} {
					if len(l) > 0 {
						out = append(out, l[rng.IntN(len(l))])
					}
				}
				out = append(out, r.g.NewId())
				rng.Shuffle(len(out), func(a, b int) { out[a], out[b] = out[b], out[a] })
				return out
			}
			for e := 0; e < len(nodes); e++ {
				for _, fop := range []int{3, 4} {
					forcedOp, forcedIds = fop, pick()
					ok := step((nReq/len(nodes)+400)*len(nodes)+e, true, damaged, place)
					forcedOp, forcedIds = -1, nil
					res.Stat("directed_requests_with_a_damaged_shard", 1)
					if !ok {
						return res
					}
				}
				r.checkIdReads(e, col, true, damaged, place)
			}
			for i := 0; i < 10; i++ {
				if !step(nReq+2000+i, true, damaged, place) {
					return res
				}
			}
		}
	}
	// ---- one shard server down (a real process, killed)
	if len(nodes) >= 2 && len(col.ShardIds) >= 2 && okp {
		owner := cluster.RendezvousHash(r.user, servers, 1)[0]
		// the node to lose: not the one holding the collection record, and among the others the one with
		// the fewest shards (a server holding exactly one shard is the interesting case: nothing else of
		// the same request tells the entry node that this server is gone)
		downShards := map[string]bool{}
		for i, n := range nodes {
			if n.RPCAddr == owner {
				continue // keep the collection record reachable
			}
			mine := map[string]bool{}
			for _, sid := range col.ShardIds {
				if cluster.RendezvousHash(sid, servers, 1)[0] == n.RPCAddr {
					mine[sid] = true
				}
			}
			if len(mine) > 0 && (r.downIdx < 0 || len(mine) < len(downShards)) {
				r.downIdx = i
				downShards = mine
			}
		}
		if len(downShards) == 1 {
			res.Stat("deployments_where_the_dead_server_held_exactly_one_shard", 1)
		}
		for sid := range damaged {
			downShards[sid] = true
		}
		if r.downIdx >= 0 && len(downShards) < len(col.ShardIds) {
			nodes[r.downIdx].Kill()
			res.Stat("deployments_with_a_node_killed", 1)
			// give the surviving nodes' connections the moment they need to see the peer go away: the
			// first request then meets a connection that is known to be dead, a later one a fresh dial
			time.Sleep(time.Duration(50+rng.IntN(400)) * time.Millisecond)
			// the very first request of every remaining entry node after the outage goes to points of a
			// shard on the dead server (the entry nodes still hold a connection to it from before): it
			// must be reported as failed because a shard did not answer, never as "not found"
			var onDown []uuid.UUID
			for _, id := range r.m.SortedIds() {
				if downShards[place[id]] {
					onDown = append(onDown, id)
				}
			}
			if len(onDown) > 0 {
				for e := 0; e < len(nodes); e++ {
					if e == r.downIdx {
						continue
					}
					forcedOp, forcedIds = []int{3, 4}[e%2], []uuid.UUID{onDown[rng.IntN(len(onDown))]}
					ok := step((nReq/len(nodes)+200)*len(nodes)+e, true, downShards, place) // index congruent to e: entry node e
					forcedOp, forcedIds = -1, nil
					res.Stat("first_requests_after_the_outage_aimed_at_the_dead_server", 1)
					if !ok {
						return res
					}
				}
			}
			forcedOp = 11
			okq := step(nReq+1000, true, downShards, place)
			forcedOp = -1
			if !okq {
				return res
			}
			for i := 0; i < 25; i++ {
				if !step(nReq+i, true, downShards, place) {
					return res
				}
			}
		}
	}
	res.Sample(map[string]any{"nodes": len(nodes), "shards": len(col.ShardIds), "per_shard_limit": perShard, "points": len(r.m.Docs), "node_killed": r.downIdx >= 0})
	return res
}

func placeShards(place map[uuid.UUID]string) []string {
	set := map[string]bool{}
	for _, s := range place {
		set[s] = true
	}
	out := []string{}
	for s := range set {
		out = append(out, s)
	}
	sort.Strings(out)
	return out
}

func (r *c17run) checkFailedList(what string, got, want []uuid.UUID, msgs map[string]bool, degraded bool, anyFailed bool) {
	sortIds := func(s []uuid.UUID) []string {
		out := make([]string, len(s))
		for i, id := range s {
			out[i] = id.String()
		}
		sort.Strings(out)
		return out
	}
	if strings.Join(sortIds(got), ",") != strings.Join(sortIds(want), ",") {
		r.res.Violate("failed-list", "C17:"+what+"-failed-list", fmt.Sprintf("%s (%s, node down: %v) reported failed ids %v, the ids no shard processed are %v", what, r.topo, degraded, sortIds(got), sortIds(want)), nil)
		return
	}
	if !anyFailed {
		return
	}
	if degraded {
		if msgs["not found"] {
			r.res.Violate("failed-message", "C17:not-found-while-degraded", fmt.Sprintf("%s said 'not found' although a shard server did not answer", what), nil)
		}
	} else if !(len(msgs) == 1 && msgs["not found"]) {
		r.res.Violate("failed-message", "C17:unavailable-while-healthy", fmt.Sprintf("%s reported %v although every shard answered", what, msgs), nil)
	}
}
