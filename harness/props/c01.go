package props

import (
	"fmt"
	"time"

	"github.com/google/uuid"
	"github.com/semafind/semadb/models"
	"semaverif/fw"
	"semaverif/gen"
	"semaverif/model"
	"semaverif/sx"
)

// C01: stored points follow the documented insert / update / delete semantics.
type c01 struct{}

func init() { fw.Register(c01{}) }

func (c01) ID() string    { return "C01" }
func (c01) Level() string { return "exploration" }
func (c01) Rule() string {
	return "unit = one history of 30 (quick) / 120 (thorough) write batches (sizes 0..40; ids fresh / repeated in batch / already stored at first, middle, last position / deleted earlier / never stored; documents with nested, extra and indexed fields, empty documents, \"_delete\" of present and absent fields, oversized merges) on a file-backed shard; after EVERY batch, also failed ones: outcome vs model, reported ids, point count, _id reads of all live + recently deleted + unknown ids (select *), and bijection/conservation invariants on a raw dump of the points and internal buckets. Non-trivial history = contains >=1 rejected batch, >=1 node-id reuse and >=1 field removal; distinct by hash of the executed batch script."
}
func (c01) Assumptions() []string {
	return []string{"documents are msgpack maps with indexed fields typed the way the HTTP layer types them", "an update batch naming one id twice is applied sequentially", "oversized merges are generated with a clear margin around MaxPointSize"}
}
func (c01) Floor(tier string) int {
	if tier == "thorough" {
		return 300
	}
	return 20
}
func (c01) Timeout(string) time.Duration { return 15 * time.Minute }
func (c01) Parallel(string) int          { return 16 }

func (c01) Cases(tier string, seed uint64) []fw.Case {
	n, steps := 96, 30
	if tier == "thorough" {
		n, steps = 640, 120
	}
	schemas := []string{"full", "filter", "empty", "full", "vamana-only", "full"}
	cs := make([]fw.Case, n)
	for i := range cs {
		cs[i] = fw.Case{Seed: fw.CaseSeed(seed, "C01", i), Name: fmt.Sprintf("history%d", i), Params: map[string]any{"schema": schemas[i%len(schemas)], "steps": steps, "cache": []string{"unlimited", "unlimited", "zero", "tiny"}[i%4]}}
	}
	return cs
}

func schemaByName(name string, dim int) models.IndexSchema {
	switch name {
	case "empty":
		return models.IndexSchema{}
	case "filter":
		return gen.FilterSchema()
	case "vamana-only":
		return models.IndexSchema{"vec": gen.Vamana(dim, models.DistanceEuclidean, 40, 32, 1.2, nil)}
	default:
		return gen.FullSchema(dim)
	}
}

func (c01) RunCase(c fw.Case, env *fw.Env) *fw.CaseResult {
	res := fw.NewResult()
	schema := schemaByName(c.Str("schema", "full"), 6)
	g := gen.New(c.Seed, schema)
	const maxPointSize = 6000
	s, err := sx.Open(shardPath(env, "c01"), schema, newCacheManager(c.Str("cache", "unlimited")), maxPointSize)
	if err != nil {
		res.Note("open: %v", err)
		res.Inconclusive++
		return res
	}
	defer s.Close()
	m := model.New()
	h := gen.NewHistory(g)
	h.BigProb, h.BigMax = 0.02, 800
	steps := c.Int("steps", 30)
	script := []any{}
	var recentDead []uuid.UUID
	rejected, reuse, removal := 0, 0, 0
	seenNodeIds := map[uint64]uuid.UUID{}
	diverged := false
	for step := 0; step < steps && !diverged; step++ {
		op := h.Next(m)
		// oversized merge, with a clear margin
		if op.Kind == gen.OpUpdate && len(op.Points) > 0 && g.R.IntN(12) == 0 {
			big := make([]byte, maxPointSize+500)
			op.Points[g.R.IntN(len(op.Points))].Doc["blob"] = string(big)
			op.Tag = "update-oversized"
		}
		for _, p := range op.Points {
			if op.Kind == gen.OpUpdate {
				for _, v := range p.Doc {
					if sv, ok := v.(string); ok && sv == model.DeleteValue {
						if _, live := m.Docs[p.Id]; live {
							removal++
						}
					}
				}
			}
		}
		script = append(script, describeOp(op))
		ok, out := applyOp(res, "C01", s, m, op, step)
		if !ok {
			diverged = true
			break
		}
		if !out.Succeeded {
			rejected++
		}
		h.Applied(op, out.Deleted)
		recentDead = append(recentDead, out.Deleted...)
		if len(recentDead) > 30 {
			recentDead = recentDead[len(recentDead)-30:]
		}
		probe := append([]uuid.UUID{g.NewId()}, recentDead...)
		// dead ids that are live again are not probes
		dead := probe[:0]
		for _, id := range probe {
			if _, live := m.Docs[id]; !live {
				dead = append(dead, id)
			}
		}
		if !checkStore(res, "C01", s, m, dead, step, true) {
			diverged = true
		}
		// node id reuse accounting (from the dump)
		if d, err := sx.DumpStore(s.Shard.VerifDiskStore(), schema); err == nil {
			for n, u := range d.Points().NodeToId {
				if prev, ok := seenNodeIds[n]; ok && prev != u {
					reuse++
				}
				seenNodeIds[n] = u
			}
		}
		// single-id read with and without select
		if id, ok := pickAny(m); ok {
			hits, err := s.Search(models.SearchRequest{Query: idQuery(id), Limit: 10})
			if err != nil || len(hits) != 1 || hits[0].Id != id || hits[0].Doc != nil {
				res.Violate("id-read", "C01:id-read", fmt.Sprintf("step %d: _id equals read without select of %s returned %d hits (err %v)", step, id, len(hits), err), nil)
			}
		}
		res.Stat("batches", 1)
		res.Stat("batch_"+string(op.Kind), 1)
	}
	res.Stat("histories", 1)
	res.Stat("node_id_reuses", int64(reuse))
	res.Stat("field_removals", int64(removal))
	nontrivial := rejected >= 1 && reuse >= 1 && removal >= 1
	res.Eval(nontrivial, fmt.Sprint(script))
	if c.Idx < 2 && len(script) > 6 {
		res.Sample(map[string]any{"schema": c.Str("schema", ""), "first_batches": script[:6], "rejected": rejected, "node_id_reuses": reuse, "field_removals": removal})
	}
	return res
}

func pickAny(m *model.Model) (uuid.UUID, bool) {
	for id := range m.Docs {
		return id, true
	}
	return uuid.UUID{}, false
}
