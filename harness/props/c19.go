package props

import (
	"bytes"
	"cmp"
	"fmt"
	"math"
	"math/rand/v2"
	"slices"
	"sort"
	"strings"
	"time"

	"github.com/google/uuid"
	"github.com/semafind/semadb/conversion"
	"github.com/semafind/semadb/diskstore"
	"github.com/semafind/semadb/shard/index/inverted"
	"github.com/semafind/semadb/shard/index/text"
	"github.com/semafind/semadb/shard/pointstore"
	"semaverif/fw"
)

// C19: key and value encodings round-trip and preserve order.
type c19 struct{}

func init() { fw.Register(c19{}) }

func (c19) ID() string    { return "C19" }
func (c19) Level() string { return "exploration" }
func (c19) Rule() string {
	return "unit = ordered pair of values of one type (int64, float64, string, uint64) from a pool of boundary values (extremes, powers of two +-1, both zeros, subnormals, infinities, Nextafter neighbours, strings that are prefixes of each other / contain 0x00 and 0xff / multi-byte runes) plus random bit patterns: round-trip, injectivity and sign(bytes.Compare(enc a, enc b)) == sign(cmp(a,b)); plus scan cases (RangeScan/PrefixScan over a bucket of encoded keys on bbolt and memory back ends vs the value-level definition); plus float32 vector / edge list / node key / point key / term key / document key round trips for lengths 1..4096. Non-trivial pair = the two values differ in sign, exponent/length class or are adjacent; distinct by (type, a, b)."
}
func (c19) Assumptions() []string {
	return []string{"numeric equality for float64 (so +0 and -0 are one value); NaN is outside the quantifier", "float32 vector payloads compared bit for bit (NaN payloads included)", "run under -race so checkptr instruments the unsafe slice conversions"}
}
func (c19) Floor(tier string) int {
	if tier == "thorough" {
		return 5000000
	}
	return 1000000
}
func (c19) Timeout(string) time.Duration { return 20 * time.Minute }
func (c19) Parallel(string) int          { return 16 }

func (c19) Cases(tier string, seed uint64) []fw.Case {
	kinds := []string{"int64", "float64", "string", "uint64", "vectors", "keys", "scan-int64", "scan-float64", "scan-string", "scan-uint64"}
	reps := 1
	pool := 900
	if tier == "thorough" {
		reps = 4
		pool = 1600
	}
	var cs []fw.Case
	for r := 0; r < reps; r++ {
		for _, k := range kinds {
			cs = append(cs, fw.Case{Seed: fw.CaseSeed(seed, "C19"+k, r), Name: k, Params: map[string]any{"kind": k, "pool": pool, "rep": r}})
		}
	}
	return cs
}

func int64Pool(rng *rand.Rand, n int) []int64 {
	p := []int64{math.MinInt64, math.MinInt64 + 1, -1, 0, 1, math.MaxInt64 - 1, math.MaxInt64, -256, -255, 255, 256, -128, 127, 128, -129, math.MinInt32, math.MaxInt32, math.MinInt32 - 1, math.MaxInt32 + 1}
	for i := 0; i < 63; i++ {
		v := int64(1) << i
		p = append(p, v, v-1, v+1, -v, -v-1, -v+1)
	}
	for len(p) < n {
		switch rng.IntN(3) {
		case 0:
			p = append(p, int64(rng.Uint64()))
		case 1:
			p = append(p, int64(rng.IntN(2000)-1000))
		default:
			p = append(p, int64(rng.Uint64())>>uint(rng.IntN(64)))
		}
	}
	return dedupe(p, func(a, b int64) int { return cmp.Compare(a, b) })
}

func float64Pool(rng *rand.Rand, n int) []float64 {
	negZero := math.Copysign(0, -1)
	base := []float64{0, negZero, math.SmallestNonzeroFloat64, -math.SmallestNonzeroFloat64, 2.2250738585072014e-308, -2.2250738585072014e-308,
		1, -1, 0.5, -0.5, 2, -2, math.MaxFloat64, -math.MaxFloat64, math.Inf(1), math.Inf(-1), math.Pi, -math.Pi, 1e-300, -1e-300, 1e300, -1e300,
		float64(math.MaxInt64), float64(math.MinInt64), 0.1, -0.1, 255, 256, -255, -256}
	p := slices.Clone(base)
	for _, v := range base {
		if !math.IsInf(v, 0) {
			p = append(p, math.Nextafter(v, math.Inf(1)), math.Nextafter(v, math.Inf(-1)))
		}
	}
	for e := -1074; e <= 1023; e += 37 {
		v := math.Ldexp(1, e)
		p = append(p, v, -v)
	}
	for len(p) < n {
		switch rng.IntN(3) {
		case 0:
			v := math.Float64frombits(rng.Uint64())
			if math.IsNaN(v) {
				continue
			}
			p = append(p, v)
		case 1:
			p = append(p, rng.NormFloat64()*1000)
		default:
			// subnormals
			p = append(p, math.Float64frombits(rng.Uint64()&0x800fffffffffffff))
		}
	}
	// dedupe by bits (keep both zeros as separate pool members)
	seen := map[uint64]bool{}
	out := p[:0]
	for _, v := range p {
		b := math.Float64bits(v)
		if !seen[b] {
			seen[b] = true
			out = append(out, v)
		}
	}
	return out
}

func stringPool(rng *rand.Rand, n int) []string {
	p := []string{"", "a", "A", "ab", "aB", "abc", "b", "a\x00", "a\x00b", "\x00", "\x00\x00", "\xff", "\xff\xff", "a\xff", "é", "é", "ß", "ss", "İ", "i", "日本", "日本語", "😀", "😀a", "z", "zz", "Z", " ", "  ", "a ", " a", "_", "~", "\x7f", "\x80", "\xc3", "\xc3\xa9"}
	for _, s := range slices.Clone(p) {
		p = append(p, s+"\x00", s+"a", "a"+s)
	}
	alphabet := []string{"a", "b", "A", "\x00", "\xff", "é", "z", "0", " "}
	for len(p) < n {
		l := rng.IntN(8)
		var sb strings.Builder
		for i := 0; i < l; i++ {
			if rng.IntN(6) == 0 {
				sb.WriteByte(byte(rng.UintN(256)))
			} else {
				sb.WriteString(alphabet[rng.IntN(len(alphabet))])
			}
		}
		p = append(p, sb.String())
	}
	return dedupe(p, func(a, b string) int { return cmp.Compare(a, b) })
}

func uint64Pool(rng *rand.Rand, n int) []uint64 {
	p := []uint64{0, 1, 2, 255, 256, math.MaxUint32, math.MaxUint32 + 1, math.MaxInt64, math.MaxInt64 + 1, math.MaxUint64, math.MaxUint64 - 1}
	for i := 0; i < 64; i++ {
		v := uint64(1) << i
		p = append(p, v, v-1, v+1)
	}
	for len(p) < n {
		p = append(p, rng.Uint64()>>uint(rng.IntN(64)))
	}
	return dedupe(p, func(a, b uint64) int { return cmp.Compare(a, b) })
}

func dedupe[T any](p []T, c func(a, b T) int) []T {
	slices.SortFunc(p, c)
	return slices.CompactFunc(p, func(a, b T) bool { return c(a, b) == 0 })
}

func sign(x int) int {
	if x < 0 {
		return -1
	}
	if x > 0 {
		return 1
	}
	return 0
}

func checkSortable[T inverted.Invertable](res *fw.CaseResult, tname string, pool []T, cmpv func(a, b T) int, eq func(a, b T) bool, classOf func(T) int) {
	keys := make([][]byte, len(pool))
	for i, v := range pool {
		k, err := inverted.VerifToByteSortable(v)
		if err != nil {
			res.Violate("encode-error", tname+":encode-error", fmt.Sprintf("%s value %v: %v", tname, v, err), nil)
			continue
		}
		keys[i] = k
		var back T
		if err := inverted.VerifFromByteSortable(k, &back); err != nil {
			res.Violate("decode-error", tname+":decode-error", fmt.Sprintf("%s value %v key %x: %v", tname, v, k, err), nil)
			continue
		}
		res.Eval(false)
		if !eq(back, v) {
			res.Violate("roundtrip", tname+":roundtrip:"+describeVal(v), fmt.Sprintf("%s: decode(encode(%s)) = %s (key %x)", tname, describeVal(v), describeVal(back), k), nil)
		}
	}
	if len(pool) > 0 {
		res.Sample(map[string]any{"type": tname, "value": describeVal(pool[len(pool)/3]), "key": fmt.Sprintf("%x", keys[len(pool)/3])})
	}
	reported := 0
	for i := range pool {
		for j := range pool {
			if keys[i] == nil || keys[j] == nil {
				continue
			}
			a, b := pool[i], pool[j]
			vc := sign(cmpv(a, b))
			kc := sign(bytes.Compare(keys[i], keys[j]))
			nt := i != j && (classOf(a) != classOf(b) || i-j == 1 || j-i == 1)
			res.Eval(nt, tname, describeVal(a), describeVal(b))
			if vc == 0 && kc != 0 {
				if reported < 8 {
					reported++
					res.Violate("equal-values-different-keys", tname+":eqdiff:"+describeVal(a)+","+describeVal(b), fmt.Sprintf("%s: values %s and %s are equal but keys differ: %x vs %x", tname, describeVal(a), describeVal(b), keys[i], keys[j]), nil)
				}
				continue
			}
			if vc != 0 && kc == 0 {
				if reported < 8 {
					reported++
					res.Violate("key-collision", tname+":collision", fmt.Sprintf("%s: different values %s and %s share key %x", tname, describeVal(a), describeVal(b), keys[i]), nil)
				}
				continue
			}
			if vc != kc {
				if reported < 8 {
					reported++
					res.Violate("order", tname+":order:"+describeVal(a)+","+describeVal(b), fmt.Sprintf("%s: cmp(%s, %s) = %d but bytes.Compare(keys) = %d (%x vs %x)", tname, describeVal(a), describeVal(b), vc, kc, keys[i], keys[j]), nil)
				}
			}
		}
	}
}

func describeVal(v any) string {
	switch x := v.(type) {
	case float64:
		if x == 0 && math.Signbit(x) {
			return "-0.0"
		}
		return fmt.Sprintf("%g", x)
	case string:
		return fmt.Sprintf("%q", x)
	default:
		return fmt.Sprintf("%v", x)
	}
}

func floatClass(f float64) int {
	_, e := math.Frexp(f)
	s := 0
	if math.Signbit(f) {
		s = 1
	}
	if f == 0 {
		return 100000 + s
	}
	return e*2 + s
}

func (c19) RunCase(c fw.Case, env *fw.Env) *fw.CaseResult {
	res := fw.NewResult()
	rng := rand.New(rand.NewPCG(c.Seed, 19))
	pool := c.Int("pool", 900)
	switch c.Str("kind", "") {
	case "int64":
		checkSortable(res, "int64", int64Pool(rng, pool), func(a, b int64) int { return cmp.Compare(a, b) }, func(a, b int64) bool { return a == b },
			func(v int64) int {
				if v < 0 {
					return -lenBits(uint64(-v))
				}
				return lenBits(uint64(v))
			})
	case "uint64":
		checkSortable(res, "uint64", uint64Pool(rng, pool), func(a, b uint64) int { return cmp.Compare(a, b) }, func(a, b uint64) bool { return a == b }, func(v uint64) int { return lenBits(v) })
	case "float64":
		checkSortable(res, "float64", float64Pool(rng, pool), func(a, b float64) int {
			if a < b {
				return -1
			}
			if a > b {
				return 1
			}
			return 0
		}, func(a, b float64) bool { return a == b }, floatClass)
	case "string":
		checkSortable(res, "string", stringPool(rng, pool), func(a, b string) int { return cmp.Compare(a, b) }, func(a, b string) bool { return a == b }, func(s string) int { return len(s) })
	case "vectors":
		c19Vectors(res, rng, c.Int("rep", 0))
	case "keys":
		c19Keys(res, rng)
	case "scan-int64":
		scanCheck(res, env, rng, "int64", int64Pool(rng, 300), func(a, b int64) int { return cmp.Compare(a, b) })
	case "scan-uint64":
		scanCheck(res, env, rng, "uint64", uint64Pool(rng, 300), func(a, b uint64) int { return cmp.Compare(a, b) })
	case "scan-float64":
		fp := float64Pool(rng, 300)
		// one representative per numeric value (the two zeros are one value)
		fp = slices.DeleteFunc(fp, func(f float64) bool { return f == 0 && math.Signbit(f) })
		scanCheck(res, env, rng, "float64", fp, func(a, b float64) int { return cmp.Compare(a, b) })
	case "scan-string":
		sp := slices.DeleteFunc(stringPool(rng, 300), func(s string) bool { return s == "" }) // bbolt rejects empty keys; the API never stores one (Validate refuses empty string queries; empty stored strings are covered by C02)
		scanCheck(res, env, rng, "string", sp, func(a, b string) int { return cmp.Compare(a, b) })
	}
	return res
}

func lenBits(v uint64) int {
	n := 0
	for v > 0 {
		n++
		v >>= 1
	}
	return n
}

func c19Vectors(res *fw.CaseResult, rng *rand.Rand, rep int) {
	special := []uint32{0, 0x80000000, 0x7f800000, 0xff800000, 0x7fc00000, 0x7fc00001, 0xffc12345, 0x7f800001, 1, 0x80000001, 0x007fffff, 0x00800000, 0x7f7fffff, 0x3f800000}
	for n := 1; n <= 4096; n++ {
		if rep > 0 && n%(rep+1) != 0 && n > 64 {
			// later repetitions thin out the long lengths, every length is covered by rep 0
		}
		v := make([]float32, n)
		for i := range v {
			var bits uint32
			if rng.IntN(4) == 0 {
				bits = special[rng.IntN(len(special))]
			} else {
				bits = rng.Uint32()
			}
			v[i] = math.Float32frombits(bits)
		}
		// encode from an unaligned position inside a larger array too
		backing := make([]float32, n+3)
		off := rng.IntN(3)
		copy(backing[off:], v)
		src := backing[off : off+n]
		b := conversion.Float32ToBytes(src)
		res.Eval(true, "vec", n, off, fmt.Sprint(math.Float32bits(v[0])))
		if len(b) != 4*n {
			res.Violate("vector-length", "vec:len", fmt.Sprintf("Float32ToBytes of %d floats gave %d bytes", n, len(b)), nil)
			continue
		}
		// storage copies the bytes (bbolt/memstore keep them); decode from a copy at odd alignment
		holder := make([]byte, len(b)+1)
		copy(holder[1:], b)
		back := conversion.BytesToFloat32(holder[1:])
		if len(back) != n {
			res.Violate("vector-length", "vec:len", fmt.Sprintf("BytesToFloat32 of %d bytes gave %d floats", len(b), len(back)), nil)
			continue
		}
		for i := range v {
			if math.Float32bits(back[i]) != math.Float32bits(v[i]) {
				res.Violate("vector-roundtrip", "vec:roundtrip", fmt.Sprintf("length %d index %d: %08x -> %08x", n, i, math.Float32bits(v[i]), math.Float32bits(back[i])), nil)
				break
			}
		}
		// byte layout is little endian IEEE (what a reader on disk expects)
		for _, i := range []int{0, n - 1, rng.IntN(n)} {
			want := math.Float32bits(v[i])
			got := uint32(b[4*i]) | uint32(b[4*i+1])<<8 | uint32(b[4*i+2])<<16 | uint32(b[4*i+3])<<24
			if got != want {
				res.Violate("vector-layout", "vec:layout", fmt.Sprintf("length %d index %d: bytes %x are not little-endian %08x", n, i, b[4*i:4*i+4], want), nil)
			}
		}
		// decoded slice must not alias the input bytes
		if n > 0 {
			holder[1] ^= 0xff
			if math.Float32bits(back[0]) != math.Float32bits(v[0]) {
				res.Violate("vector-alias", "vec:alias", fmt.Sprintf("length %d: decoded vector aliases the storage bytes", n), nil)
			}
		}
		// single float
		sb := conversion.SingleFloat32ToBytes(v[0])
		if math.Float32bits(conversion.BytesToSingleFloat32(sb)) != math.Float32bits(v[0]) {
			res.Violate("float-roundtrip", "single:roundtrip", fmt.Sprintf("%08x", math.Float32bits(v[0])), nil)
		}
		// edge list of the same length
		if n <= 1024 || n%16 == 0 {
			e := make([]uint64, n)
			for i := range e {
				e[i] = rng.Uint64() >> uint(rng.IntN(64))
			}
			eb := conversion.EdgeListToBytes(e)
			back := conversion.BytesToEdgeList(eb)
			res.Eval(true, "edges", n, e[0])
			if !slices.Equal(back, e) { // the width of an entry is not part of the statement
				res.Violate("edgelist-roundtrip", "edges:roundtrip", fmt.Sprintf("length %d", n), nil)
			}
		}
	}
	res.Sample(map[string]any{"type": "float32 vectors", "lengths": "1..4096", "bit patterns": "random + inf/nan payloads/denormals", "offsets": "0..2 floats into a larger array"})
}

func c19Keys(res *fw.CaseResult, rng *rand.Rand) {
	ids := uint64Pool(rng, 2500)
	suffixes := []byte{'v', 'q', 'e', 'i', 'd', 0, 0xff, 'n', 'p'}
	seen := map[string]string{}
	for _, id := range ids {
		u := conversion.Uint64ToBytes(id)
		if conversion.BytesToUint64(u) != id {
			res.Violate("uint64-roundtrip", "uint64:roundtrip", fmt.Sprintf("%d -> %x -> %d", id, u, conversion.BytesToUint64(u)), nil)
		}
		for _, s := range suffixes {
			k := conversion.NodeKey(id, s)
			desc := fmt.Sprintf("node(%d,%q)", id, s)
			if prev, ok := seen[string(k)]; ok && prev != desc {
				res.Violate("key-collision", "nodekey:collision", fmt.Sprintf("%s and %s share key %x", prev, desc, k), nil)
			}
			seen[string(k)] = desc
			for _, s2 := range suffixes {
				got, ok := conversion.NodeIdFromKey(k, s2)
				res.Eval(true, "nodekey", id, s, s2)
				if s2 == s {
					if !ok || got != id {
						res.Violate("nodekey-roundtrip", "nodekey:roundtrip", fmt.Sprintf("NodeIdFromKey(NodeKey(%d,%q),%q) = %d,%v", id, s, s2, got, ok), nil)
					}
				} else if ok {
					res.Violate("nodekey-suffix", "nodekey:suffix", fmt.Sprintf("NodeKey(%d,%q) parses with suffix %q", id, s, s2), nil)
				}
			}
			// a node key is never a point key, term key or document key
			if _, ok := text.VerifDocIdFromKey(k); ok {
				res.Violate("key-confusion", "nodekey:dockey", fmt.Sprintf("node key %x parses as document key", k), nil)
			}
		}
		dk := text.VerifDocumentKey(id)
		got, ok := text.VerifDocIdFromKey(dk)
		res.Eval(true, "dockey", id)
		if !ok || got != id {
			res.Violate("dockey-roundtrip", "dockey:roundtrip", fmt.Sprintf("document key of %d -> %d,%v", id, got, ok), nil)
		}
		if prev, ok := seen[string(dk)]; ok {
			res.Violate("key-collision", "dockey:collision", fmt.Sprintf("document key of %d collides with %s", id, prev), nil)
		}
		seen[string(dk)] = fmt.Sprintf("doc(%d)", id)
	}
	// the text index keeps term keys, document keys and the counter key in one
	// bucket: a term key must never parse as a document key and vice versa
	terms := stringPool(rng, 1500)
	terms = append(terms, "numDocuments", "_numDocuments", "s", "ts", "t", "d", "abcdefg", "1234567", "\x00\x00\x00\x00\x00\x00\x00")
	// long tokens (the analyser puts no limit on token length): pairs that agree on a long prefix and
	// differ in their last byte only
	for _, L := range []int{200, 255, 256, 257, 1023, 4096, 32764, 32765, 32766, 32767, 32768, 32769, 32770, 40000, 65535, 65536, 70001} {
		base := strings.Repeat("a", L-1)
		terms = append(terms, base+"a", base+"b", base+"\x00")
	}
	termSeen := map[string]string{}
	for _, t := range terms {
		if t == "" {
			continue
		}
		k := text.VerifTermKey(t)
		back, ok := text.VerifTermFromKey(k)
		res.Eval(true, "termkey", t)
		if !ok || back != t {
			res.Violate("termkey-roundtrip", "termkey:roundtrip", fmt.Sprintf("term %q -> key %q -> %q,%v", t, k, back, ok), nil)
		}
		if prev, ok := termSeen[string(k)]; ok && prev != t {
			res.Violate("key-collision", "termkey:collision", fmt.Sprintf("terms %q and %q share key %q", prev, t, k), nil)
		}
		termSeen[string(k)] = t
		if id, ok := text.VerifDocIdFromKey(k); ok {
			res.Violate("key-confusion", "termkey:dockey", fmt.Sprintf("term key %q parses as document key %d", k, id), nil)
		}
		if string(k) == "_numDocuments" {
			res.Violate("key-confusion", "termkey:counter", fmt.Sprintf("term %q collides with the counter key", t), nil)
		}
	}
	for _, id := range ids {
		dk := text.VerifDocumentKey(id)
		if term, ok := text.VerifTermFromKey(dk); ok {
			res.Violate("key-confusion", "dockey:termkey", fmt.Sprintf("document key of %d (%x) parses as term key %q", id, dk, term), nil)
		}
	}
	// point keys
	pseen := map[string]uuid.UUID{}
	for i := 0; i < 3000; i++ {
		var u uuid.UUID
		for j := range u {
			u[j] = byte(rng.UintN(256))
		}
		if i%10 == 0 {
			u = uuid.UUID{}
			u[rng.IntN(16)] = byte(rng.UintN(256))
		}
		for _, s := range []byte{'i', 'd'} {
			k := pointstore.PointKey(u, s)
			res.Eval(true, "pointkey", u.String(), s)
			// there is no decoder for point keys in the repository, so faithfulness is judged as
			// injectivity over (uuid, suffix); the byte layout itself is not part of the statement
			if prev, ok := pseen[string(k)]; ok && prev != u {
				res.Violate("key-collision", "pointkey:collision", fmt.Sprintf("%s and %s", prev, u), nil)
			}
			if s == 'd' && bytes.Equal(k, pointstore.PointKey(u, 'i')) {
				res.Violate("key-collision", "pointkey:suffix-collision", fmt.Sprintf("PointKey(%s) is the same for suffixes i and d", u), nil)
			}
			pseen[string(k)] = u
			if _, ok := conversion.NodeIdFromKey(k, s); ok {
				res.Violate("key-confusion", "pointkey:nodekey", fmt.Sprintf("point key %x parses as node key", k), nil)
			}
		}
	}
	res.Sample(map[string]any{"type": "keys", "node ids": len(ids), "suffixes": string(suffixes), "terms": len(terms), "uuids": 3000})
}

// scanCheck fills a bucket with encoded keys on both back ends and compares
// RangeScan / PrefixScan with the value-level definition.
func scanCheck[T inverted.Invertable](res *fw.CaseResult, env *fw.Env, rng *rand.Rand, tname string, pool []T, cmpv func(a, b T) int) {
	for _, backend := range []string{"bbolt", "memory"} {
		path := ""
		if backend == "bbolt" {
			path = fmt.Sprintf("%s/scan-%s.bbolt", env.Dir, tname)
		}
		ds, err := diskstore.Open(path)
		if err != nil {
			res.Note("open %s: %v", backend, err)
			res.Inconclusive++
			continue
		}
		// store a random subset
		stored := []T{}
		for _, v := range pool {
			if rng.IntN(3) != 0 {
				stored = append(stored, v)
			}
		}
		err = ds.Write(func(bm diskstore.BucketManager) error {
			b, err := bm.Get("scan")
			if err != nil {
				return err
			}
			for _, v := range stored {
				k, err := inverted.VerifToByteSortable(v)
				if err != nil {
					return err
				}
				if err := b.Put(k, []byte{1}); err != nil {
					return fmt.Errorf("put %v: %w", v, err)
				}
			}
			return nil
		})
		if err != nil {
			res.Note("fill %s: %v", backend, err)
			res.Inconclusive++
			ds.Close()
			continue
		}
		ds.Read(func(bm diskstore.BucketManager) error {
			b, _ := bm.Get("scan")
			decode := func(k []byte) T {
				var v T
				inverted.VerifFromByteSortable(k, &v)
				return v
			}
			for q := 0; q < 400; q++ {
				lo := pool[rng.IntN(len(pool))]
				hi := pool[rng.IntN(len(pool))]
				mode := rng.IntN(5)
				inclusive := rng.IntN(2) == 0
				var start, end []byte
				var want []T
				switch mode {
				case 0: // [lo, hi] or (lo, hi)
					start, _ = inverted.VerifToByteSortable(lo)
					end, _ = inverted.VerifToByteSortable(hi)
					for _, v := range stored {
						if inclusive && cmpv(v, lo) >= 0 && cmpv(v, hi) <= 0 || !inclusive && cmpv(v, lo) > 0 && cmpv(v, hi) < 0 {
							want = append(want, v)
						}
					}
				case 1, 2: // >= / > lo
					start, _ = inverted.VerifToByteSortable(lo)
					for _, v := range stored {
						if inclusive && cmpv(v, lo) >= 0 || !inclusive && cmpv(v, lo) > 0 {
							want = append(want, v)
						}
					}
				default: // <= / < hi
					end, _ = inverted.VerifToByteSortable(hi)
					for _, v := range stored {
						if inclusive && cmpv(v, hi) <= 0 || !inclusive && cmpv(v, hi) < 0 {
							want = append(want, v)
						}
					}
				}
				var got []T
				var order [][]byte
				b.RangeScan(start, end, inclusive, func(k, v []byte) error {
					got = append(got, decode(k))
					order = append(order, slices.Clone(k))
					return nil
				})
				res.Eval(true, backend, tname, "range", describeVal(lo), describeVal(hi), mode, inclusive)
				if !sameSet(got, want, cmpv) {
					res.Violate("scan-mismatch", tname+":rangescan:"+backend, fmt.Sprintf("%s %s RangeScan(start=%x end=%x inclusive=%v) [mode %d lo=%s hi=%s] visited %d values, definition gives %d; got=%s want=%s", backend, tname, start, end, inclusive, mode, describeVal(lo), describeVal(hi), len(got), len(want), describeList(got), describeList(want)), nil)
				}
				if !sort.SliceIsSorted(order, func(i, j int) bool { return bytes.Compare(order[i], order[j]) < 0 }) {
					res.Violate("scan-order", tname+":rangescan-order:"+backend, fmt.Sprintf("%s RangeScan visited keys out of order", backend), nil)
				}
			}
			if tname == "string" {
				for q := 0; q < 300; q++ {
					s := any(pool[rng.IntN(len(pool))]).(string)
					pre := s[:rng.IntN(len(s)+1)]
					if pre == "" {
						continue
					}
					var want, got []string
					for _, v := range stored {
						if strings.HasPrefix(any(v).(string), pre) {
							want = append(want, any(v).(string))
						}
					}
					b.PrefixScan([]byte(pre), func(k, v []byte) error { got = append(got, string(k)); return nil })
					res.Eval(true, backend, "prefix", pre)
					if !sameSet(got, want, func(a, b string) int { return cmp.Compare(a, b) }) {
						res.Violate("scan-mismatch", "string:prefixscan:"+backend, fmt.Sprintf("%s PrefixScan(%q) visited %q, definition gives %q", backend, pre, got, want), nil)
					}
				}
			}
			return nil
		})
		ds.Close()
	}
	res.Sample(map[string]any{"type": "scan " + tname, "pool": len(pool), "backends": []string{"bbolt", "memory"}})
}

func sameSet[T any](a, b []T, c func(x, y T) int) bool {
	if len(a) != len(b) {
		return false
	}
	a = slices.Clone(a)
	b = slices.Clone(b)
	slices.SortFunc(a, c)
	slices.SortFunc(b, c)
	for i := range a {
		if c(a[i], b[i]) != 0 {
			return false
		}
	}
	return true
}

func describeList[T any](l []T) string {
	var sb strings.Builder
	sb.WriteString("[")
	for i, v := range l {
		if i > 12 {
			sb.WriteString(" ...")
			break
		}
		if i > 0 {
			sb.WriteString(" ")
		}
		sb.WriteString(describeVal(v))
	}
	sb.WriteString("]")
	return sb.String()
}
