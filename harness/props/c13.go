package props

import (
	"fmt"
	"math/rand/v2"
	"slices"
	"strings"
	"sync"
	"time"

	"github.com/semafind/semadb/cluster"
	"semaverif/fw"
)

// C13: routing is a deterministic, order-independent, minimally disruptive
// function. Metamorphic oracle over the real cluster.RendezvousHash.
type c13 struct{}

func init() { fw.Register(c13{}) }

func (c13) ID() string    { return "C13" }
func (c13) Level() string { return "exploration" }
func (c13) Rule() string {
	return "case = (key, server set S, change) with change in {permutation, add one server, remove one server, determinism, share}; keys are uuids, user-id-like strings, empty/long strings and strings sharing prefixes/suffixes with server names; S has 1..16 host:port names (some are prefixes of others). Non-trivial = |S|>=2; distinct by hash of (key, sorted S, change)."
}
func (c13) Assumptions() []string {
	return []string{"exact 64-bit score ties between two servers cannot be produced and are unobserved", "owner = RendezvousHash(key, servers, 1)[0] as used by every call site in cluster/"}
}
func (c13) Floor(tier string) int {
	if tier == "thorough" {
		return 200000
	}
	return 5000
}
func (c13) Timeout(string) time.Duration { return 10 * time.Minute }
func (c13) Parallel(string) int          { return 16 }

func (c13) Cases(tier string, seed uint64) []fw.Case {
	n := 16
	per := 1500
	if tier == "thorough" {
		n = 64
		per = 16000
	}
	cs := make([]fw.Case, n)
	for i := range cs {
		cs[i] = fw.Case{Seed: fw.CaseSeed(seed, "C13", i), Name: fmt.Sprintf("chunk%d", i), Params: map[string]any{"n": per, "chunk": i}}
	}
	return cs
}

func genServerSet(rng *rand.Rand, n int) []string {
	hosts := []string{"semadb", "semadb-0", "semadb-1", "semadb-10", "node", "nodeA", "nodeAB", "a", "ab", "abc", "10.0.0.1", "10.0.0.11", "localhost", "server.internal", "s", "x-y", "db"}
	seen := map[string]bool{}
	out := []string{}
	for len(out) < n {
		h := hosts[rng.IntN(len(hosts))]
		if rng.IntN(4) == 0 {
			h = fmt.Sprintf("%s%d", h, rng.IntN(30))
		}
		port := []int{11001, 11002, 1100, 110, 80, 8080, 9898}[rng.IntN(7)]
		if rng.IntN(5) == 0 {
			port = 1 + rng.IntN(65000)
		}
		s := fmt.Sprintf("%s:%d", h, port)
		if !seen[s] {
			seen[s] = true
			out = append(out, s)
		}
	}
	return out
}

func genKey(rng *rand.Rand, servers []string) string {
	switch rng.IntN(10) {
	case 0:
		return ""
	case 1:
		return strings.Repeat("k", 1+rng.IntN(300))
	case 2: // shares a prefix/suffix with a server name (code hashes key+server)
		s := servers[rng.IntN(len(servers))]
		return s[:rng.IntN(len(s)+1)]
	case 3:
		s := servers[rng.IntN(len(servers))]
		return s[rng.IntN(len(s)+1):] + s
	case 4:
		return fmt.Sprintf("user%d", rng.IntN(1000))
	case 5:
		return []string{"alice", "bob", "a", "ab", "alice1", "ali", ".", "..", "ユーザー", "user name"}[rng.IntN(10)]
	default:
		var b [16]byte
		for i := range b {
			b[i] = byte(rng.UintN(256))
		}
		return fmt.Sprintf("%x-%x-%x-%x-%x", b[0:4], b[4:6], b[6:8], b[8:10], b[10:16])
	}
}

func owner(key string, servers []string) string {
	return cluster.RendezvousHash(key, servers, 1)[0]
}

func (c13) RunCase(c fw.Case, env *fw.Env) *fw.CaseResult {
	res := fw.NewResult()
	rng := rand.New(rand.NewPCG(c.Seed, 13))
	n := c.Int("n", 1000)
	chunk := c.Int("chunk", 0)
	for it := 0; it < n; it++ {
		size := 1 + rng.IntN(16)
		S := genServerSet(rng, size)
		key := genKey(rng, S)
		sorted := slices.Clone(S)
		slices.Sort(sorted)
		before := slices.Clone(S)
		base := cluster.RendezvousHash(key, S, len(S))
		nt := len(S) >= 2
		// determinism + does not mutate input (every node routes on its one shared server list)
		if !slices.Equal(before, S) {
			res.Violate("input-mutated", "mutates-server-list", fmt.Sprintf("key=%q the caller's server list was %v before the call and is %v after it", key, before, S), nil)
			copy(S, before)
		}
		again := cluster.RendezvousHash(key, S, len(S))
		res.Eval(nt, key, sorted, "determinism")
		if !slices.Equal(base, again) || !slices.Equal(before, S) {
			res.Violate("nondeterministic", "determinism", fmt.Sprintf("key=%q servers=%v first=%v second=%v", key, S, base, again), nil)
		}
		// result is a permutation of S, topK respected
		chk := slices.Clone(base)
		slices.Sort(chk)
		if !slices.Equal(chk, sorted) {
			res.Violate("not-a-ranking", "ranking", fmt.Sprintf("key=%q servers=%v ranking=%v", key, S, base), nil)
		}
		for k := 0; k <= len(S)+1; k++ {
			top := cluster.RendezvousHash(key, S, k)
			want := min(k, len(S))
			if len(top) != want || !slices.Equal(top, base[:want]) {
				res.Violate("topk", "topk", fmt.Sprintf("key=%q servers=%v topK=%d got=%v full=%v", key, S, k, top, base), nil)
			}
		}
		// permutations: all for |S|<=5, else 20 random
		perms := 20
		if len(S) <= 5 {
			perms = 0
			permute(S, func(p []string) {
				perms++
				got := cluster.RendezvousHash(key, p, len(p))
				res.Eval(nt, key, sorted, "perm", strings.Join(p, ","))
				if !slices.Equal(got, base) {
					res.Violate("order-dependent", "permutation", fmt.Sprintf("key=%q order1=%v -> %v ; order2=%v -> %v", key, S, base, p, got), nil)
				}
			})
		} else {
			for j := 0; j < perms; j++ {
				p := slices.Clone(S)
				rng.Shuffle(len(p), func(a, b int) { p[a], p[b] = p[b], p[a] })
				got := cluster.RendezvousHash(key, p, len(p))
				res.Eval(nt, key, sorted, "perm", strings.Join(p, ","))
				if !slices.Equal(got, base) {
					res.Violate("order-dependent", "permutation", fmt.Sprintf("key=%q order1=%v -> %v ; order2=%v -> %v", key, S, base, p, got), nil)
				}
			}
		}
		// add one server (at a random position)
		if len(S) < 16 {
			var s string
			for {
				cand := genServerSet(rng, 1)[0]
				if !slices.Contains(S, cand) {
					s = cand
					break
				}
			}
			pos := rng.IntN(len(S) + 1)
			S2 := slices.Insert(slices.Clone(S), pos, s)
			o1, o2 := owner(key, S), owner(key, S2)
			res.Eval(true, key, sorted, "add", s)
			if o2 != o1 && o2 != s {
				res.Violate("disruption-on-add", "add", fmt.Sprintf("key=%q S=%v owner=%s; after adding %s at %d owner=%s (neither old owner nor new server)", key, S, o1, s, pos, o2), nil)
			}
		}
		// remove one server
		if len(S) >= 2 {
			ri := rng.IntN(len(S))
			s := S[ri]
			S2 := slices.Delete(slices.Clone(S), ri, ri+1)
			if rng.IntN(2) == 0 {
				rng.Shuffle(len(S2), func(a, b int) { S2[a], S2[b] = S2[b], S2[a] })
			}
			o1, o2 := owner(key, S), owner(key, S2)
			res.Eval(true, key, sorted, "remove", s)
			if o1 != s && o2 != o1 {
				res.Violate("disruption-on-remove", "remove", fmt.Sprintf("key=%q S=%v owner=%s; after removing %s owner=%s although the owner was not removed", key, S, o1, s, o2), nil)
			}
			// the full ranking minus s must be the ranking on S2
			full := cluster.RendezvousHash(key, S, len(S))
			full = slices.DeleteFunc(full, func(x string) bool { return x == s })
			r2 := cluster.RendezvousHash(key, S2, len(S2))
			if !slices.Equal(full, r2) {
				res.Violate("disruption-on-remove", "remove-ranking", fmt.Sprintf("key=%q S=%v removing %s changes relative ranking: %v vs %v", key, S, s, full, r2), nil)
			}
		}
		if it == 0 {
			res.Sample(map[string]any{"key": key, "servers": S, "ranking": base})
		}
	}
	// concurrent routing decisions on ONE shared server list (a node keeps a single list and starts a
	// goroutine per shard): every decision must equal the one computed alone on a private copy
	for round := 0; round < 4; round++ {
		S := genServerSet(rng, 2+rng.IntN(15))
		shared := slices.Clone(S)
		keys := make([]string, 64)
		want := make([]string, len(keys))
		for i := range keys {
			keys[i] = genKey(rng, S)
			want[i] = owner(keys[i], slices.Clone(S))
		}
		got := make([][]string, 8)
		var wg sync.WaitGroup
		for g := 0; g < 8; g++ {
			wg.Add(1)
			go func(g int) {
				defer wg.Done()
				out := make([]string, 0, len(keys)*20)
				for rep := 0; rep < 20; rep++ {
					for i := range keys {
						out = append(out, owner(keys[(i+g*7)%len(keys)], shared))
					}
				}
				got[g] = out
			}(g)
		}
		wg.Wait()
		sorted := slices.Clone(S)
		slices.Sort(sorted)
		res.Eval(true, "concurrent-shared-list", sorted, round)
		res.Stat("concurrent_decisions_on_a_shared_list", int64(8*20*len(keys)))
		bad := 0
		for g := range got {
			for j, o := range got[g] {
				i := (j%len(keys) + g*7) % len(keys)
				if o != want[i] && bad < 3 {
					bad++
					res.Violate("concurrent-routing", "shared-list", fmt.Sprintf("key=%q servers=%v: owner computed alone %s, computed while other goroutines route on the same list %s", keys[i], S, want[i], o), nil)
				}
			}
		}
		if !slices.Equal(shared, S) {
			res.Violate("input-mutated", "mutates-server-list", fmt.Sprintf("shared server list changed from %v to %v under concurrent routing", S, shared), nil)
		}
	}
	// share: every server owns some of 20000*|S| keys; also shares are not wildly off
	for _, size := range []int{1, 2, 3, 5, 8, 16} {
		if (chunk+size)%4 != 0 {
			continue
		}
		S := genServerSet(rng, size)
		nk := 20000 * size
		counts := map[string]int{}
		for i := 0; i < nk; i++ {
			var k string
			if i%2 == 0 {
				k = genKey(rng, S)
			} else {
				k = fmt.Sprintf("%08x-%04x-4%03x-8%03x-%012x", rng.Uint32(), rng.UintN(1<<16), rng.UintN(1<<12), rng.UintN(1<<12), rng.Uint64N(1<<48))
			}
			counts[owner(k, S)]++
		}
		sorted := slices.Clone(S)
		slices.Sort(sorted)
		res.Eval(size >= 2, "share", sorted)
		res.Stat("share_sets", 1)
		for _, s := range S {
			if counts[s] == 0 {
				res.Violate("no-share", "share", fmt.Sprintf("server %s owns none of %d keys; S=%v counts=%v", s, nk, S, counts), nil)
			}
		}
	}
	return res
}

func permute(s []string, f func([]string)) {
	p := slices.Clone(s)
	var rec func(int)
	rec = func(i int) {
		if i == len(p) {
			f(slices.Clone(p))
			return
		}
		for j := i; j < len(p); j++ {
			p[i], p[j] = p[j], p[i]
			rec(i + 1)
			p[i], p[j] = p[j], p[i]
		}
	}
	rec(0)
}
