package props

import (
	"fmt"
	"math/rand/v2"
	"sort"
	"strings"
	"sync"
	"time"

	"github.com/semafind/semadb/models"
	"semaverif/fw"
	"semaverif/httpx"
)

// C16: tenants are isolated from each other.
type c16 struct{}

func init() { fw.Register(c16{}) }

func (c16) ID() string    { return "C16" }
func (c16) Level() string { return "exploration" }
func (c16) Rule() string {
	return "unit = one history: two tenants (user ids that are prefixes of each other, equal to user+collection of the other, with spaces, dots, unicode, 200 characters, and the '/'-free path-like ids '.' and '..') issue 60 HTTP requests each against a real server (single node or 3 nodes, v2 API plus v1 creates), each tenant sequentially from its own client, the two clients concurrently; both use the same collection names and the same pool of point ids; tenant A runs the full API including collection deletion, point deletion of ids B also uses, and quota exhaustion. Oracle: every response to tenant B (status, collection list, shard point counts, create/quota outcome, failed-point lists, _id reads with documents, filter searches) must equal what a model fed ONLY with B's own requests predicts - so any influence of A is a violation. The roles are then swapped within the same history (A is checked against an A-only model too). Non-trivial = both tenants own an equally named collection and one of them deleted or filled one; distinct by script hash."
}
func (c16) Assumptions() []string {
	return []string{"each tenant's requests are sequential, so its expected responses are a function of its own sequence only", "user ids are header values without '/' and without control characters", "a tenant whose id is refused outright (4xx on every request) is trivially isolated; that is accepted and counted"}
}
func (c16) Floor(tier string) int {
	if tier == "thorough" {
		return 300
	}
	return 20
}
func (c16) Timeout(string) time.Duration { return 15 * time.Minute }
func (c16) Parallel(string) int          { return 8 }

var tenantPairs = [][2]string{
	{"a", "ab"}, {"alice", "alicecol1"}, {"alice", "alice x"}, {"bob", "bob."}, {"user", "User"}, {"ünï", "ünïcode"},
	{".", "col1"}, {"..", "userCollections"}, {"x", strings.Repeat("x", 200)}, {"col1", "col2"}, {"a.b", "a"}, {"t1", "t2"},
	{"..", "node0"}, {".", "." + "x"},
	// ids that differ only in characters a "sanitising" layer might fold together (file-system unsafe
	// punctuation, case, blanks, escapes, trailing dots, unicode composition): distinct opaque ids
	// must stay distinct tenants in every namespace (database keys AND directories)
	{"idp|1001", "idp_1001"}, {"idp:1001", "idp|1001"}, {"a*b", "a?b"}, {"a<b", "a>b"}, {"a\"b", "a'b"},
	{"a b", "a_b"}, {"a+b", "a b"}, {"a%20b", "a b"}, {"a%2Fb", "a_b"}, {"user@x", "user_x"},
	{"a~1", "a"}, {"a#b", "a"}, {"e\u0301", "\u00e9"}, {"Bob.", "bob"}, {"a=b", "a-b"}, {"a,b", "a;b"},
}

func (c16) Cases(tier string, seed uint64) []fw.Case {
	n := 2 * len(tenantPairs)
	if tier == "thorough" {
		n = 14 * len(tenantPairs)
	}
	cs := make([]fw.Case, n)
	for i := range cs {
		pair := tenantPairs[i%len(tenantPairs)]
		nodes := 1
		if i%3 == 2 {
			nodes = 3
		}
		cs[i] = fw.Case{Seed: fw.CaseSeed(seed, "C16", i), Name: fmt.Sprintf("%q-vs-%q", pair[0], pair[1]), Params: map[string]any{"a": pair[0], "b": pair[1], "nodes": nodes, "requests": 60}}
	}
	return cs
}

type tenantModel struct {
	cols map[string]map[string]map[string]any // collection -> point id -> doc
}

type tenantRun struct {
	name     string
	user     string
	plan     models.UserPlan
	clients  []*httpx.Client
	model    tenantModel
	rng      *rand.Rand
	res      *fw.CaseResult
	idPool   []string
	script   []string
	refused  int
	requests int
	deleted  bool
	filled   bool
}

var c16ColNames = []string{"col1", "col2", "shared", "abc"}

func c16Schema() map[string]any {
	return map[string]any{
		"n":   map[string]any{"type": "integer"},
		"s":   map[string]any{"type": "string", "string": map[string]any{"caseSensitive": false}},
		"vec": map[string]any{"type": "vectorVamana", "vectorVamana": map[string]any{"vectorSize": 2, "distanceMetric": "euclidean", "searchSize": 75, "degreeBound": 64, "alpha": 1.2}},
	}
}

func (t *tenantRun) client() *httpx.Client { return t.clients[t.rng.IntN(len(t.clients))] }

func (t *tenantRun) violate(kind, sig, msg string) {
	t.res.Violate(kind, "C16:"+sig, fmt.Sprintf("tenant %s (user id %q): %s\nlast requests of this tenant: %s", t.name, t.user, msg, strings.Join(lastN(t.script, 6), " ; ")), nil)
}

func lastN(s []string, n int) []string {
	if len(s) > n {
		return s[len(s)-n:]
	}
	return s
}

func idsOf(points []any) []string {
	out := []string{}
	for _, p := range points {
		if m, ok := p.(map[string]any); ok {
			if id, ok := m["_id"].(string); ok {
				out = append(out, id)
			}
		}
	}
	sort.Strings(out)
	return out
}

// step issues one request and checks it against the tenant's own model.
func (t *tenantRun) step() {
	r := t.rng
	col := c16ColNames[r.IntN(len(c16ColNames))]
	cl := t.client()
	t.requests++
	pts, exists := t.model.cols[col]
	total := func() int {
		n := 0
		for range pts {
			n++
		}
		return n
	}
	expectStatus := func(what string, resp httpx.Response, want ...int) bool {
		if resp.Err != nil {
			t.violate("transport", "transport", fmt.Sprintf("%s: transport error %v", what, resp.Err))
			return false
		}
		for _, w := range want {
			if resp.Status == w {
				return true
			}
		}
		t.violate("status", "status:"+what+fmt.Sprintf(":%d", resp.Status), fmt.Sprintf("%s answered %d %s, the tenant's own history predicts %v", what, resp.Status, trimBody(resp.Body), want))
		return false
	}
	switch op := r.IntN(12); {
	case op == 0: // list
		t.script = append(t.script, "list")
		resp := cl.Do("GET", "/v2/collections", nil)
		if !expectStatus("list", resp, 200) {
			return
		}
		got := []string{}
		if arr, ok := resp.JSON["collections"].([]any); ok {
			for _, e := range arr {
				if m, ok := e.(map[string]any); ok {
					got = append(got, fmt.Sprint(m["id"]))
				}
			}
		}
		sort.Strings(got)
		want := []string{}
		for c := range t.model.cols {
			want = append(want, c)
		}
		sort.Strings(want)
		if fmt.Sprint(got) != fmt.Sprint(want) {
			t.violate("foreign-collections", "list", fmt.Sprintf("collection list is %v, this tenant created %v", got, want))
		}
	case op == 1 || op == 2: // create
		t.script = append(t.script, "create "+col)
		body := map[string]any{"id": col, "indexSchema": c16Schema()}
		resp := cl.Do("POST", "/v2/collections", body)
		switch {
		case exists:
			expectStatus("create-existing", resp, 409)
		case len(t.model.cols) >= t.plan.MaxCollections:
			expectStatus("create-over-quota", resp, 403)
		default:
			if expectStatus("create", resp, 200) {
				t.model.cols[col] = map[string]map[string]any{}
			}
		}
	case op == 3: // get
		t.script = append(t.script, "get "+col)
		resp := cl.Do("GET", "/v2/collections/"+col, nil)
		if !exists {
			expectStatus("get-unknown", resp, 404)
			return
		}
		if !expectStatus("get", resp, 200) {
			return
		}
		sum := 0.0
		if shards, ok := resp.JSON["shards"].([]any); ok {
			for _, s := range shards {
				if m, ok := s.(map[string]any); ok {
					if pc, ok := m["pointCount"].(float64); ok {
						sum += pc
					}
				}
			}
		}
		if int(sum) != total() {
			t.violate("foreign-points", "count", fmt.Sprintf("collection %s reports %d points, this tenant stored %d", col, int(sum), total()))
		}
	case op == 4: // delete collection
		t.script = append(t.script, "delete-collection "+col)
		resp := cl.Do("DELETE", "/v2/collections/"+col, nil)
		if !exists {
			expectStatus("delete-unknown", resp, 404)
			return
		}
		if expectStatus("delete-collection", resp, 200, 202) {
			delete(t.model.cols, col)
			t.deleted = true
		}
	case op <= 7: // insert
		n := 1 + r.IntN(8)
		if r.IntN(6) == 0 {
			n = 30
		}
		used := map[string]bool{}
		points := []map[string]any{}
		for i := 0; i < n; i++ {
			id := t.idPool[r.IntN(len(t.idPool))]
			if used[id] {
				continue
			}
			if exists {
				if _, stored := pts[id]; stored {
					continue
				}
			}
			used[id] = true
			points = append(points, map[string]any{"_id": id, "n": r.IntN(10), "s": []string{"red", "Blue", "green"}[r.IntN(3)], "note": t.name + fmt.Sprint(r.IntN(1000)), "vec": []float64{r.Float64(), r.Float64()}})
		}
		if len(points) == 0 {
			return
		}
		t.script = append(t.script, fmt.Sprintf("insert %s x%d", col, len(points)))
		resp := cl.Do("POST", "/v2/collections/"+col+"/points", map[string]any{"points": points})
		if !exists {
			expectStatus("insert-unknown", resp, 404)
			return
		}
		if int64(total()+len(points)) > t.plan.MaxCollectionPointCount {
			t.filled = true
			expectStatus("insert-over-quota", resp, 403)
			return
		}
		if !expectStatus("insert", resp, 200) {
			return
		}
		if fr, ok := resp.JSON["failedRanges"].([]any); ok && len(fr) > 0 {
			t.violate("insert-failed", "failed-ranges", fmt.Sprintf("insert of %d fresh ids into %s reported failed ranges %v", len(points), col, fr))
			return
		}
		for _, p := range points {
			pts[p["_id"].(string)] = p
		}
	case op == 8: // update
		if !exists {
			return
		}
		ids := pickIds(r, t.idPool, 1+r.IntN(4))
		points := []map[string]any{}
		for _, id := range ids {
			points = append(points, map[string]any{"_id": id, "note": t.name + "-upd" + fmt.Sprint(r.IntN(1000))})
		}
		t.script = append(t.script, fmt.Sprintf("update %s x%d", col, len(points)))
		resp := cl.Do("PUT", "/v2/collections/"+col+"/points", map[string]any{"points": points})
		if !expectStatus("update", resp, 200) {
			return
		}
		wantFailed := []string{}
		for _, p := range points {
			id := p["_id"].(string)
			if cur, ok := pts[id]; ok {
				cur["note"] = p["note"]
			} else {
				wantFailed = append(wantFailed, id)
			}
		}
		t.checkFailed("update", col, resp, wantFailed)
	case op == 9: // delete points
		if !exists {
			return
		}
		ids := pickIds(r, t.idPool, 1+r.IntN(5))
		t.script = append(t.script, fmt.Sprintf("delete-points %s x%d", col, len(ids)))
		resp := cl.Do("DELETE", "/v2/collections/"+col+"/points", map[string]any{"ids": ids})
		if !expectStatus("delete-points", resp, 200) {
			return
		}
		wantFailed := []string{}
		for _, id := range ids {
			if _, ok := pts[id]; ok {
				delete(pts, id)
			} else {
				wantFailed = append(wantFailed, id)
			}
		}
		t.checkFailed("delete-points", col, resp, wantFailed)
	case op == 10: // _id read with documents
		if !exists {
			return
		}
		ids := pickIds(r, t.idPool, 1+r.IntN(6))
		t.script = append(t.script, fmt.Sprintf("read %s x%d", col, len(ids)))
		resp := cl.Do("POST", "/v2/collections/"+col+"/points/search", map[string]any{
			"query":  map[string]any{"property": "_id", "stringArray": map[string]any{"value": ids, "operator": "containsAny"}},
			"select": []string{"*"}, "limit": 100})
		if !expectStatus("read", resp, 200) {
			return
		}
		arr, _ := resp.JSON["points"].([]any)
		want := []string{}
		for _, id := range ids {
			if _, ok := pts[id]; ok {
				want = append(want, id)
			}
		}
		sort.Strings(want)
		want = uniq(want)
		if fmt.Sprint(idsOf(arr)) != fmt.Sprint(want) {
			t.violate("foreign-points", "read-set", fmt.Sprintf("reading ids from %s returned %v, this tenant stores %v of them", col, idsOf(arr), want))
			return
		}
		for _, p := range arr {
			m := p.(map[string]any)
			mine := pts[m["_id"].(string)]
			if fmt.Sprint(m["note"]) != fmt.Sprint(mine["note"]) || fmt.Sprint(m["s"]) != fmt.Sprint(mine["s"]) || fmt.Sprint(m["n"]) != fmt.Sprint(mine["n"]) {
				t.violate("foreign-data", "read-doc", fmt.Sprintf("point %v of %s reads as note=%v s=%v n=%v, this tenant stored note=%v s=%v n=%v", m["_id"], col, m["note"], m["s"], m["n"], mine["note"], mine["s"], mine["n"]))
			}
		}
	default: // filter search
		if !exists {
			return
		}
		x := r.IntN(10)
		t.script = append(t.script, fmt.Sprintf("search %s n>=%d", col, x))
		resp := cl.Do("POST", "/v2/collections/"+col+"/points/search", map[string]any{
			"query": map[string]any{"property": "n", "integer": map[string]any{"value": x, "operator": "greaterThanOrEquals"}}, "limit": 100})
		if !expectStatus("search", resp, 200) {
			return
		}
		arr, _ := resp.JSON["points"].([]any)
		want := []string{}
		for id, p := range pts {
			if p["n"].(int) >= x {
				want = append(want, id)
			}
		}
		sort.Strings(want)
		if fmt.Sprint(idsOf(arr)) != fmt.Sprint(want) {
			t.violate("foreign-points", "search-set", fmt.Sprintf("search n>=%d in %s returned %d points %v, this tenant's matching points are %v", x, col, len(arr), idsOf(arr), want))
		}
	}
}

// audit re-reads everything the tenant's own model holds.
func (t *tenantRun) audit() {
	cl := t.clients[0]
	t.script = append(t.script, "audit-after-restart")
	// a node that has just been restarted may answer 5xx until its peers' RPC
	// listeners accept again: that is availability, not isolation - ask again
	// (bounded number of attempts); a 5xx that persists is reported
	settled := func(method, path string, body any) httpx.Response {
		var r httpx.Response
		for attempt := 0; attempt < 15; attempt++ {
			r = cl.Do(method, path, body)
			if r.Err == nil && r.Status < 500 {
				return r
			}
			t.res.Stat("audit_retries_after_5xx", 1)
			time.Sleep(200 * time.Millisecond)
		}
		return r
	}
	resp := settled("GET", "/v2/collections", nil)
	got := []string{}
	if arr, ok := resp.JSON["collections"].([]any); ok {
		for _, e := range arr {
			if m, ok := e.(map[string]any); ok {
				got = append(got, fmt.Sprint(m["id"]))
			}
		}
	}
	sort.Strings(got)
	want := []string{}
	for c := range t.model.cols {
		want = append(want, c)
	}
	sort.Strings(want)
	if resp.Status != 200 || fmt.Sprint(got) != fmt.Sprint(want) {
		t.violate("foreign-collections", "audit-list", fmt.Sprintf("after a restart the collection list is %v (status %d), this tenant owns %v", got, resp.Status, want))
	}
	for col, pts := range t.model.cols {
		ids := []string{}
		for id := range pts {
			ids = append(ids, id)
		}
		sort.Strings(ids)
		r2 := settled("GET", "/v2/collections/"+col, nil)
		sum := 0.0
		if shards, ok := r2.JSON["shards"].([]any); ok {
			for _, s := range shards {
				if m, ok := s.(map[string]any); ok {
					if pc, ok := m["pointCount"].(float64); ok {
						sum += pc
					}
				}
			}
		}
		if r2.Status != 200 || int(sum) != len(ids) {
			t.violate("lost-points", "audit-count", fmt.Sprintf("after a restart collection %s reports %d points (status %d %s), this tenant stored %d", col, int(sum), r2.Status, trimBody(r2.Body), len(ids)))
			continue
		}
		if len(ids) == 0 {
			continue
		}
		r3 := settled("POST", "/v2/collections/"+col+"/points/search", map[string]any{
			"query":  map[string]any{"property": "_id", "stringArray": map[string]any{"value": ids, "operator": "containsAny"}},
			"select": []string{"note"}, "limit": 100})
		arr, _ := r3.JSON["points"].([]any)
		if r3.Status != 200 || fmt.Sprint(idsOf(arr)) != fmt.Sprint(ids) {
			t.violate("lost-points", "audit-read", fmt.Sprintf("after a restart reading the %d stored ids of %s returned %d points (status %d %s)", len(ids), col, len(arr), r3.Status, trimBody(r3.Body)))
		}
	}
}

func (t *tenantRun) checkFailed(what, col string, resp httpx.Response, wantFailed []string) {
	got := []string{}
	if arr, ok := resp.JSON["failedPoints"].([]any); ok {
		for _, e := range arr {
			if m, ok := e.(map[string]any); ok {
				got = append(got, fmt.Sprint(m["id"]))
			}
		}
	}
	sort.Strings(got)
	sort.Strings(wantFailed)
	if fmt.Sprint(got) != fmt.Sprint(uniq(wantFailed)) && fmt.Sprint(got) != fmt.Sprint(wantFailed) {
		t.violate("foreign-points", what+"-failed-list", fmt.Sprintf("%s on %s reported failed ids %v, by this tenant's own history the unknown ids are %v", what, col, got, wantFailed))
	}
}

func uniq(s []string) []string {
	out := []string{}
	for i, x := range s {
		if i == 0 || x != s[i-1] {
			out = append(out, x)
		}
	}
	return out
}

func pickIds(r *rand.Rand, pool []string, n int) []string {
	seen := map[string]bool{}
	out := []string{}
	for i := 0; i < n; i++ {
		id := pool[r.IntN(len(pool))]
		if !seen[id] {
			seen[id] = true
			out = append(out, id)
		}
	}
	return out
}

func trimBody(b []byte) string {
	s := string(b)
	if len(s) > 200 {
		s = s[:200] + "..."
	}
	return strings.TrimSpace(s)
}

func (c16) RunCase(c fw.Case, env *fw.Env) *fw.CaseResult {
	res := fw.NewResult()
	httpx.InstallSink()
	plans := map[string]models.UserPlan{
		"PA": {Name: "pa", MaxCollections: 2, MaxCollectionPointCount: 40, MaxPointSize: 2048},
		"PB": {Name: "pb", MaxCollections: 3, MaxCollectionPointCount: 45, MaxPointSize: 2048},
	}
	nodes, err := httpx.StartCluster(env.Dir, c.Int("nodes", 1), httpx.Options{Plans: plans, MaxShardPointCount: 15, ShardTimeout: 1, MaxCacheSize: []int64{0, 20000, 1 << 30}[c.Idx%3]})
	if err != nil {
		res.Note("cluster: %v", err)
		res.Inconclusive++
		return res
	}
	defer func() {
		for _, n := range nodes {
			n.Stop()
		}
	}()
	rng := rand.New(rand.NewPCG(c.Seed, 16))
	pool := make([]string, 30)
	for i := range pool {
		pool[i] = fmt.Sprintf("%08x-0000-4000-8000-%012x", rng.Uint32(), i)
	}
	mk := func(name, user, plan string, seed uint64) *tenantRun {
		t := &tenantRun{name: name, user: user, plan: plans[plan], model: tenantModel{cols: map[string]map[string]map[string]any{}}, rng: rand.New(rand.NewPCG(seed, 7)), res: res, idPool: pool}
		for _, n := range nodes {
			t.clients = append(t.clients, httpx.NewClient(n.HTTPAddr, user, plan))
		}
		return t
	}
	A := mk("A", c.Str("a", "a"), "PA", c.Seed)
	B := mk("B", c.Str("b", "b"), "PB", c.Seed+1)
	// a tenant whose id the server refuses outright is trivially isolated
	probe := func(t *tenantRun) bool {
		resp := t.clients[0].Do("GET", "/v2/collections", nil)
		if resp.Err == nil && resp.Status >= 400 && resp.Status < 500 {
			return false
		}
		return true
	}
	aOK, bOK := probe(A), probe(B)
	if !aOK {
		res.Stat("tenant_ids_refused_by_server", 1)
	}
	if !bOK {
		res.Stat("tenant_ids_refused_by_server", 1)
	}
	var wg sync.WaitGroup
	nReq := c.Int("requests", 60)
	for _, t := range []*tenantRun{A, B} {
		if t == A && !aOK || t == B && !bOK {
			continue
		}
		wg.Add(1)
		go func(t *tenantRun) {
			defer wg.Done()
			for i := 0; i < nReq; i++ {
				t.step()
				if len(res.Violations) > 6 {
					return
				}
			}
		}(t)
	}
	wg.Wait()
	// ---- epilogue: tenant A creates, fills and deletes a collection under every
	// name in turn (collection deletion removes directories on disk), while B
	// keeps what it has
	if len(res.Violations) == 0 && aOK {
		cl := A.clients[0]
		for col := range A.model.cols {
			cl.Do("DELETE", "/v2/collections/"+col, nil)
			delete(A.model.cols, col)
		}
		for _, col := range c16ColNames {
			r1 := cl.Do("POST", "/v2/collections", map[string]any{"id": col, "indexSchema": c16Schema()})
			if r1.Status != 200 {
				A.violate("status", "epilogue-create", fmt.Sprintf("epilogue: creating %s with no collections left answered %d %s", col, r1.Status, trimBody(r1.Body)))
				continue
			}
			cl.Do("POST", "/v2/collections/"+col+"/points", map[string]any{"points": []map[string]any{{"_id": pool[0], "n": 1, "s": "x", "vec": []float64{0.1, 0.2}}}})
			r2 := cl.Do("DELETE", "/v2/collections/"+col, nil)
			if r2.Status != 200 && r2.Status != 202 {
				A.violate("status", "epilogue-delete", fmt.Sprintf("epilogue: deleting %s answered %d %s", col, r2.Status, trimBody(r2.Body)))
			}
			A.deleted = true
		}
		res.Stat("epilogue_create_fill_delete_rounds", int64(len(c16ColNames)))
	}
	// ---- audit after a restart: what each tenant stored must still be there
	// (open files hide removed directories until the shard is reopened)
	if len(res.Violations) == 0 {
		restarted := true
		for _, n := range nodes {
			n.Stop()
		}
		// the node has no way to close its loaded shards other than the idle
		// timer (1 s here); a real restart releases the file locks by exiting
		time.Sleep(1600 * time.Millisecond)
		for _, n := range nodes {
			if err := n.Restart(plans); err != nil {
				res.Note("restart: %v", err)
				restarted = false
			}
		}
		if restarted {
			for _, t := range []*tenantRun{A, B} {
				if t == A && !aOK || t == B && !bOK {
					continue
				}
				t.audit()
			}
			res.Stat("post_restart_audits", 1)
		}
	}
	// ---- finale: both tenants fill an equally named collection up to exactly their own point quota, at
	// the same time and in small steps. Every insert that still fits the tenant's OWN quota must be
	// accepted however busy the other tenant is, the first one beyond it must be refused.
	if len(res.Violations) == 0 && aOK && bOK {
		var fwg sync.WaitGroup
		for _, t := range []*tenantRun{A, B} {
			fwg.Add(1)
			go func(t *tenantRun) {
				defer fwg.Done()
				cl := t.clients[0]
				if lr := cl.Do("GET", "/v2/collections", nil); lr.Status == 200 {
					if arr, ok := lr.JSON["collections"].([]any); ok {
						for _, e := range arr {
							if m, ok := e.(map[string]any); ok {
								cl.Do("DELETE", "/v2/collections/"+fmt.Sprint(m["id"]), nil)
							}
						}
					}
				}
				if r := cl.Do("POST", "/v2/collections", map[string]any{"id": "quotarace", "indexSchema": c16Schema()}); r.Status != 200 {
					t.violate("status", "finale-create", fmt.Sprintf("finale: creating a collection after deleting all others answered %d %s", r.Status, trimBody(r.Body)))
					return
				}
				quota := int(t.plan.MaxCollectionPointCount)
				stored := 0
				seq := 0
				for stored < quota {
					n := min(1+t.rng.IntN(4), quota-stored)
					pts := make([]map[string]any, n)
					for i := range pts {
						seq++
						pts[i] = map[string]any{"_id": fmt.Sprintf("%08x-%04x-4000-8000-%012x", 0xfeed0000+len(t.user), len(t.name), seq), "n": seq, "s": "q", "vec": []float64{0.5, float64(seq)}}
					}
					r := cl.Do("POST", "/v2/collections/quotarace/points", map[string]any{"points": pts})
					fr, _ := r.JSON["failedRanges"].([]any)
					if r.Status != 200 || len(fr) > 0 {
						t.violate("quota", "finale-insert-within-own-quota-refused", fmt.Sprintf("finale: this tenant holds %d of its %d points; an insert of %d more answered %d %s while the other tenant was inserting into its own collection of the same name", stored, quota, n, r.Status, trimBody(r.Body)))
						return
					}
					stored += n
				}
				r := cl.Do("POST", "/v2/collections/quotarace/points", map[string]any{"points": []map[string]any{{"_id": fmt.Sprintf("%08x-%04x-4000-8000-%012x", 0xfeed0000+len(t.user), len(t.name), 999999), "n": 0, "s": "q", "vec": []float64{0.5, 0.5}}}})
				if r.Status == 200 {
					t.violate("quota", "finale-insert-beyond-quota-accepted", fmt.Sprintf("finale: an insert beyond the quota of %d points answered %d %s", quota, r.Status, trimBody(r.Body)))
				}
			}(t)
		}
		fwg.Wait()
		res.Stat("finale_concurrent_fills_to_the_quota", 1)
	}
	if p := httpx.Sink.Panics.Load(); p > 0 {
		line, stack := httpx.Sink.Snapshot()
		res.Violate("server-panic", "C16:server-panic", fmt.Sprintf("the server recovered %d panics during the history: %s\n%s", p, line, stack), nil)
	}
	sameName := false
	for c := range A.model.cols {
		if _, ok := B.model.cols[c]; ok {
			sameName = true
		}
	}
	res.Stat("requests", int64(A.requests+B.requests))
	res.Eval((sameName || A.deleted || B.deleted) && (A.deleted || B.deleted || A.filled || B.filled) && aOK && bOK, strings.Join(A.script, ";"), strings.Join(B.script, ";"), A.user, B.user)
	res.Sample(map[string]any{"tenant_a": A.user, "tenant_b": B.user, "nodes": c.Int("nodes", 1), "a_script_head": lastN(A.script, 8), "b_script_head": lastN(B.script, 8), "a_id_accepted": aOK, "b_id_accepted": bOK})
	return res
}
