package props

import (
	"fmt"
	"github.com/semafind/semadb/conversion"
	"math"
	"math/bits"
	"math/rand/v2"
	"semaverif/model"
	"semaverif/sx"
	"strings"
	"time"

	"github.com/semafind/semadb/diskstore"
	"github.com/semafind/semadb/distance"
	"github.com/semafind/semadb/models"
	"github.com/semafind/semadb/shard/vectorstore"
	"golang.org/x/sys/cpu"
	"semaverif/fw"
	"semaverif/guardmem"
)

// C20: distance functions equal their definitions on every vector length.
type c20 struct{}

func init() { fw.Register(c20{}) }

func (c20) ID() string    { return "C20" }
func (c20) Level() string { return "exploration" }
func (c20) Rule() string {
	return "unit = (kernel, length, placement/offset, distribution): kernels {dot, squared-euclidean} as selected by the architecture init (AVX2 assembly on this machine) plus the metric functions euclidean/dot/cosine/haversine and hamming/jaccard (bit functions and the binary vector store); every length 1..4096; operands placed so that the last element ends at a PROT_NONE guard page, or start right after one, or start at offset 0..15 floats into a larger array; distributions uniform, zeros, denormals (in both operands, and denormal times large), tiny components whose products and squared differences are denormal, large magnitudes, mixed signs and one-hot spike vectors at block boundaries. Compared with a float64 reference under the bound 8(n+8)2^-24*sum|terms| + (4n+8)*2^-149 (gradual underflow; flush-to-zero does not meet it); symmetry checked with the same bound. Every unit is non-trivial (each length is its own block/tail split); distinct by the tuple."
}
func (c20) Assumptions() []string {
	return []string{"the float64 reference is exact enough (53-bit accumulation of <=4096 terms)", "guard pages catch reads past the operands at page granularity exactly at the placed end", "cosine is 1-dot on unit-normalised inputs as documented"}
}
func (c20) Floor(tier string) int {
	if tier == "thorough" {
		return 600000
	}
	return 100000
}
func (c20) Timeout(string) time.Duration { return 15 * time.Minute }
func (c20) Parallel(string) int          { return 16 }

func (c20) Cases(tier string, seed uint64) []fw.Case {
	var cs []fw.Case
	chunks := 16
	for i := 0; i < chunks; i++ {
		cs = append(cs, fw.Case{Seed: fw.CaseSeed(seed, "C20", i), Name: fmt.Sprintf("float-%d", i), Params: map[string]any{"what": "float", "lo": i*256 + 1, "hi": (i + 1) * 256}})
	}
	for i := 0; i < 4; i++ {
		cs = append(cs, fw.Case{Seed: fw.CaseSeed(seed, "C20bits", i), Name: fmt.Sprintf("bits-%d", i), Params: map[string]any{"what": "bits", "lo": i*1024 + 1, "hi": (i + 1) * 1024}})
	}
	cs = append(cs, fw.Case{Seed: fw.CaseSeed(seed, "C20hav", 0), Name: "haversine", Params: map[string]any{"what": "haversine"}})
	cs = append(cs, fw.Case{Seed: fw.CaseSeed(seed, "C20pq", 0), Name: "product-quantiser", Params: map[string]any{"what": "pq"}})
	return cs
}

func (c20) ClassifyCrash(c fw.Case, stderr, exitErr string) []fw.Violation {
	sig, detail := fw.ClassifyDeath(stderr, exitErr)
	kind := "crash"
	if strings.Contains(stderr, "unexpected fault address") || strings.Contains(stderr, "fatal error: fault") {
		kind = "guard-page-fault"
		// the worker logs the call it is about to make
		last := ""
		if i := strings.Index(stderr, "LASTCALL "); i >= 0 {
			last = strings.SplitN(stderr[i:], "\n", 2)[0]
		}
		detail = "a distance kernel read outside its operands (guard page hit). last logged call: " + last + "\n" + detail
	}
	return []fw.Violation{{Kind: kind, Sig: sig, Detail: detail}}
}

type distro struct {
	name string
	gen  func(rng *rand.Rand, x, y []float32)
}

var distros = []distro{
	{"uniform", func(rng *rand.Rand, x, y []float32) {
		for i := range x {
			x[i] = rng.Float32()*2 - 1
			y[i] = rng.Float32()*2 - 1
		}
	}},
	{"zeros", func(rng *rand.Rand, x, y []float32) {
		for i := range x {
			x[i], y[i] = 0, 0
		}
	}},
	{"denormal", func(rng *rand.Rand, x, y []float32) {
		for i := range x {
			x[i] = math.Float32frombits(rng.Uint32N(1<<23) | (rng.Uint32N(2) << 31))
			y[i] = math.Float32frombits(rng.Uint32N(1<<23) | (rng.Uint32N(2) << 31))
		}
	}},
	// a denormal component times a large one is an ordinary number: a kernel that reads denormal
	// inputs as zero (DAZ) loses these terms entirely
	{"denormal-times-large", func(rng *rand.Rand, x, y []float32) {
		for i := range x {
			x[i] = math.Float32frombits(rng.Uint32N(1<<23) | (rng.Uint32N(2) << 31))
			y[i] = float32(math.Ldexp(float64(rng.Float32()+1), 40+rng.IntN(10)))
			if rng.IntN(2) == 0 {
				x[i], y[i] = y[i], x[i]
			}
		}
	}},
	// components around 1e-20: every product and every squared difference is a denormal number, which
	// gradual underflow represents and flush-to-zero (FTZ) does not
	{"tiny", func(rng *rand.Rand, x, y []float32) {
		for i := range x {
			x[i] = (rng.Float32()*2 - 1) * 2e-20
			y[i] = (rng.Float32()*2 - 1) * 2e-20
		}
	}},
	{"large", func(rng *rand.Rand, x, y []float32) {
		for i := range x {
			x[i] = (rng.Float32()*2 - 1) * 1e15
			y[i] = (rng.Float32()*2 - 1) * 1e15
		}
	}},
	{"mixed", func(rng *rand.Rand, x, y []float32) {
		for i := range x {
			x[i] = float32(math.Ldexp(rng.Float64()*2-1, rng.IntN(40)-20))
			y[i] = float32(math.Ldexp(rng.Float64()*2-1, rng.IntN(40)-20))
		}
	}},
	{"positive", func(rng *rand.Rand, x, y []float32) {
		for i := range x {
			x[i] = rng.Float32() + 0.5
			y[i] = rng.Float32() + 0.5
		}
	}},
}

func refDot(x, y []float32) (v, s float64) {
	for i := range x {
		t := float64(x[i]) * float64(y[i])
		v += t
		s += math.Abs(t)
	}
	return
}

func refEuc(x, y []float32) (v, s float64) {
	for i := range x {
		d := float64(x[i]) - float64(y[i])
		v += d * d
	}
	return v, v
}

func bound(n int, s float64) float64 {
	// relative part: float32 accumulation in any order; absolute part: every operation in the
	// denormal range rounds to a multiple of 2^-149 (gradual underflow), 2 operations per component
	return 8*float64(n+8)*math.Ldexp(1, -24)*s + float64(4*n+8)*math.Ldexp(1, -149)
}

var lastCallNote = &fw.LastCall{}

func (c20) RunCase(c fw.Case, env *fw.Env) *fw.CaseResult {
	res := fw.NewResult()
	rng := rand.New(rand.NewPCG(c.Seed, 20))
	asm := cpu.X86.HasAVX2 && cpu.X86.HasFMA && cpu.X86.HasSSE3
	if asm {
		res.Stat("asm_kernels_active", 1)
	} else {
		res.Stat("purego_kernels_active", 1)
	}
	lastCallNote = fw.NewLastCall(env.Dir)
	switch c.Str("what", "") {
	case "float":
		c20Float(res, rng, c.Int("lo", 1), c.Int("hi", 64), c.Tier == "thorough")
	case "bits":
		c20Bits(res, rng, c.Int("lo", 1), c.Int("hi", 64))
	case "haversine":
		c20Haversine(res, rng)
	case "pq":
		c20PQ(res, rng)
	}
	return res
}

type kernel struct {
	name string
	fn   distance.FloatDistFunc
	ref  func(x, y []float32) (float64, float64)
	post func(float64) float64
}

func c20Float(res *fw.CaseResult, rng *rand.Rand, lo, hi int, thorough bool) {
	rawDot, rawEuc := distance.VerifRawKernels()
	eucFn, _ := distance.GetFloatDistanceFn(models.DistanceEuclidean)
	dotFn, _ := distance.GetFloatDistanceFn(models.DistanceDot)
	cosFn, _ := distance.GetFloatDistanceFn(models.DistanceCosine)
	id := func(v float64) float64 { return v }
	kernels := []kernel{
		{"dot-kernel", rawDot, refDot, id},
		{"euclidean-kernel", rawEuc, refEuc, id},
		{"metric-euclidean", eucFn, refEuc, id},
		{"metric-dot", dotFn, refDot, func(v float64) float64 { return -v }},
		{"metric-cosine", cosFn, refDot, func(v float64) float64 { return 1 - v }},
	}
	ra, err1 := guardmem.Alloc(4 * (4096 + 32))
	rb, err2 := guardmem.Alloc(4 * (4096 + 32))
	if err1 != nil || err2 != nil {
		res.Note("guardmem unavailable: %v %v", err1, err2)
		res.Inconclusive++
		return
	}
	defer ra.Free()
	defer rb.Free()
	offsets := []int{0, 1, 7}
	if thorough {
		offsets = []int{0, 1, 2, 3, 4, 5, 6, 7, 8, 9, 10, 11, 12, 13, 14, 15}
	}
	check := func(k kernel, n int, place string, dist string, x, y []float32) {
		lastCallNote.Set(fmt.Sprintf("%s n=%d place=%s dist=%s", k.name, n, place, dist))
		got := float64(k.fn(x, y))
		rv, s := k.ref(x, y)
		want := k.post(rv)
		b := bound(n, s)
		if k.name == "metric-cosine" {
			b += math.Ldexp(1, -23) // the final 1 - dot in float32
		}
		res.Eval(true, k.name, n, place, dist)
		res.Stat("kernel_calls", 1)
		if math.IsNaN(got) || math.Abs(got-want) > b {
			res.Violate("distance-mismatch", k.name+":mismatch", fmt.Sprintf("%s length %d placement %s distribution %s: got %g, float64 reference %g, |diff| %g > bound %g", k.name, n, place, dist, got, want, math.Abs(got-want), b), map[string]any{"n": n, "place": place, "dist": dist})
		}
		got2 := float64(k.fn(y, x))
		if math.IsNaN(got2) || math.Abs(got-got2) > 2*b {
			res.Violate("asymmetric", k.name+":asymmetric", fmt.Sprintf("%s length %d placement %s distribution %s: d(x,y)=%g d(y,x)=%g", k.name, n, place, dist, got, got2), nil)
		}
	}
	for n := lo; n <= hi; n++ {
		for di, d := range distros {
			if !thorough && n > 64 && (n+di)%3 != 0 && d.name != "uniform" {
				continue // quick tier: every length sees uniform + a rotating third of the other distributions
			}
			// placement 1: both operands end at a guard page
			x := ra.FloatsAtEnd(n)
			y := rb.FloatsAtEnd(n)
			d.gen(rng, x, y)
			for _, k := range kernels {
				if k.name == "metric-cosine" {
					continue
				}
				check(k, n, "end", d.name, x, y)
			}
			// placement 2: both start right after a guard page, at offset
			for _, off := range offsets {
				if !thorough && (n+off+di)%2 == 0 && off != 0 {
					continue
				}
				xs := ra.FloatsAtStart(n + off)[off:]
				ys := rb.FloatsAtStart(n + 15 - off)[15-off:]
				copy(xs, x)
				copy(ys, y)
				for _, k := range kernels[:2] {
					check(k, n, fmt.Sprintf("start+%d", off), d.name, xs, ys)
				}
			}
		}
		// cosine on normalised inputs: must equal the true cosine distance
		{
			x := ra.FloatsAtEnd(n)
			y := rb.FloatsAtEnd(n)
			var nx, ny float64
			for i := range x {
				x[i] = rng.Float32()*2 - 1
				y[i] = rng.Float32()*2 - 1
				nx += float64(x[i]) * float64(x[i])
				ny += float64(y[i]) * float64(y[i])
			}
			if nx > 0 && ny > 0 {
				for i := range x {
					x[i] = float32(float64(x[i]) / math.Sqrt(nx))
					y[i] = float32(float64(y[i]) / math.Sqrt(ny))
				}
				check(kernels[4], n, "end", "unit", x, y)
				// true cosine (normalising again in float64)
				var dp, ax, ay float64
				for i := range x {
					dp += float64(x[i]) * float64(y[i])
					ax += float64(x[i]) * float64(x[i])
					ay += float64(y[i]) * float64(y[i])
				}
				trueCos := 1 - dp/math.Sqrt(ax*ay)
				got := float64(cosFn(x, y))
				res.Eval(true, "cosine-true", n)
				if math.Abs(got-trueCos) > bound(n, 1)+float64(n)*math.Ldexp(1, -22) {
					res.Violate("distance-mismatch", "cosine:true", fmt.Sprintf("cosine length %d: got %g true cosine distance %g", n, got, trueCos), nil)
				}
			}
		}
		// spikes: one position carries all the mass
		pos := map[int]bool{0: true, n - 1: true}
		if n > 1 {
			pos[1] = true
			pos[n-2] = true
		}
		for b := 8; b < n; b += 8 {
			if b%32 == 0 || thorough {
				pos[b] = true
				pos[b-1] = true
				if b+1 < n {
					pos[b+1] = true
				}
			}
		}
		for j := 0; j < 4; j++ {
			pos[rng.IntN(n)] = true
		}
		x := ra.FloatsAtEnd(n)
		y := rb.FloatsAtEnd(n)
		for i := range x {
			x[i], y[i] = 0, 0
		}
		for p := range pos {
			x[p] = 3
			y[p] = -5
			for _, k := range kernels[:2] {
				check(k, n, "end", fmt.Sprintf("spike@%d", p), x, y)
			}
			// y zero except elsewhere: dot must be exactly 0, euclid 9+25
			if n > 1 {
				q := (p + 1 + rng.IntN(n-1)) % n
				y[p] = 0
				y[q] = -5
				for _, k := range kernels[:2] {
					check(k, n, "end", fmt.Sprintf("spike@%d/%d", p, q), x, y)
				}
				y[q] = 0
			}
			x[p], y[p] = 0, 0
		}
		res.Stat("lengths_covered", 1)
	}
	res.Sample(map[string]any{"kernels": []string{"dot-kernel", "euclidean-kernel", "metric-euclidean", "metric-dot", "metric-cosine"}, "lengths": fmt.Sprintf("%d..%d", lo, hi), "placements": "end-at-guard-page, start-after-guard-page+offset", "distributions": "uniform zeros denormal large mixed positive unit spikes"})
}

func c20Bits(res *fw.CaseResult, rng *rand.Rand, lo, hi int) {
	ham, _ := distance.GetBitDistanceFn(models.DistanceHamming)
	jac, _ := distance.GetBitDistanceFn(models.DistanceJaccard)
	ra, _ := guardmem.Alloc(8 * 80)
	rb, _ := guardmem.Alloc(8 * 80)
	defer ra.Free()
	defer rb.Free()
	for n := lo; n <= hi; n++ {
		words := (n + 63) / 64
		for rep := 0; rep < 3; rep++ {
			// 1. bit functions on words placed at guard pages
			x := ra.Uint64sAtEnd(words)
			y := rb.Uint64sAtEnd(words)
			density := []float64{0.5, 0.05, 0.95}[rep]
			bx := make([]bool, n)
			by := make([]bool, n)
			for i := range x {
				x[i], y[i] = 0, 0
			}
			for i := 0; i < n; i++ {
				bx[i] = rng.Float64() < density
				by[i] = rng.Float64() < density
				if bx[i] {
					x[i/64] |= 1 << (i % 64)
				}
				if by[i] {
					y[i/64] |= 1 << (i % 64)
				}
			}
			wantH, inter, union := 0, 0, 0
			for i := 0; i < n; i++ {
				if bx[i] != by[i] {
					wantH++
				}
				if bx[i] && by[i] {
					inter++
				}
				if bx[i] || by[i] {
					union++
				}
			}
			wantJ := float32(0)
			if union > 0 {
				wantJ = 1 - float32(inter)/float32(union)
			}
			lastCallNote.Set(fmt.Sprintf("bits n=%d rep=%d", n, rep))
			gh, gj := ham(x, y), jac(x, y)
			res.Eval(true, "bitfn", n, rep)
			if gh != float32(wantH) || ham(y, x) != gh {
				res.Violate("distance-mismatch", "hamming:mismatch", fmt.Sprintf("hamming on %d bits: got %g want %d (reverse %g)", n, gh, wantH, ham(y, x)), nil)
			}
			if math.Abs(float64(gj-wantJ)) > 1e-6 || jac(y, x) != gj {
				res.Violate("distance-mismatch", "jaccard:mismatch", fmt.Sprintf("jaccard on %d bits: got %g want %g (reverse %g)", n, gj, wantJ, jac(y, x)), nil)
			}
			_ = bits.OnesCount64
			// 2. through the binary vector store (thresholding + padding)
			for _, metric := range []string{models.DistanceHamming, models.DistanceJaccard} {
				bucket := diskstore.NewMemBucket(false)
				// rep 0: the metric itself (threshold 0.5 by definition); rep 1, 2: an
				// explicit binary quantiser with another fixed threshold on a float metric
				thr := float32(0.5)
				var q *models.Quantizer
				storeMetric := metric
				if rep > 0 {
					thr = []float32{0, -1.5, 3.25, 0.49999}[(n+rep)%4]
					t := thr
					q = &models.Quantizer{Type: models.QuantizerBinary, Binary: &models.BinaryQuantizerParamaters{Threshold: &t, DistanceMetric: metric}}
					storeMetric = models.DistanceEuclidean
				}
				vs, err := vectorstore.New(q, bucket, storeMetric, n)
				if err != nil {
					res.Violate("store-error", "binary-store:new", err.Error(), nil)
					continue
				}
				// values around the threshold 0.5; "irrespective of padding": the
				// float vectors have exactly n entries, the store pads to 64
				vx := make([]float32, n)
				vy := make([]float32, n)
				vals := []float32{0, 1, 0.5, 0.50001, 0.49999, -1, 2, float32(math.Inf(1)), float32(math.Inf(-1)), thr, float32(math.Nextafter32(thr, 100)), float32(math.Nextafter32(thr, -100)), -1.5, 3.25}
				for i := 0; i < n; i++ {
					if rep == 0 {
						if bx[i] {
							vx[i] = 1
						}
						if by[i] {
							vy[i] = 1
						}
					} else {
						vx[i] = vals[rng.IntN(len(vals))]
						vy[i] = vals[rng.IntN(len(vals))]
					}
				}
				px, err1 := vs.Set(10, vx)
				py, err2 := vs.Set(11, vy)
				if err1 != nil || err2 != nil {
					res.Violate("store-error", "binary-store:set", fmt.Sprint(err1, err2), nil)
					continue
				}
				h, in, un := 0, 0, 0
				for i := 0; i < n; i++ {
					a, b := vx[i] > thr, vy[i] > thr
					if a != b {
						h++
					}
					if a && b {
						in++
					}
					if a || b {
						un++
					}
				}
				var want float32
				if metric == models.DistanceHamming {
					want = float32(h)
				} else if un > 0 {
					want = 1 - float32(in)/float32(un)
				}
				d1 := vs.DistanceFromFloat(vx)(py)
				d2 := vs.DistanceFromFloat(vy)(px)
				d3 := vs.DistanceFromPoint(px)(py)
				d4 := vs.DistanceFromPoint(py)(px)
				res.Eval(true, "binstore", metric, n, rep)
				for _, d := range []float32{d1, d2, d3, d4} {
					if math.Abs(float64(d-want)) > 1e-6 {
						res.Violate("distance-mismatch", metric+":store-mismatch", fmt.Sprintf("%s through the binary store (threshold %g), length %d: float->point %g, reverse %g, point->point %g / %g, definition on bits (v>threshold) %g", metric, thr, n, d1, d2, d3, d4, want), nil)
						break
					}
				}
			}
		}
		res.Stat("bit_lengths_covered", 1)
	}
	res.Sample(map[string]any{"bit functions": "hamming, jaccard", "lengths": fmt.Sprintf("%d..%d", lo, hi), "via": "GetBitDistanceFn on guard-page words; vectorstore.New(hamming|jaccard) Set + DistanceFromFloat/DistanceFromPoint"})
}

func c20Haversine(res *fw.CaseResult, rng *rand.Rand) {
	hav, _ := distance.GetFloatDistanceFn(models.DistanceHaversine)
	ra, _ := guardmem.Alloc(64)
	rb, _ := guardmem.Alloc(64)
	defer ra.Free()
	defer rb.Free()
	const R = 6371000.0
	ref := func(x, y []float32) float64 {
		la1, lo1 := float64(x[0])*math.Pi/180, float64(x[1])*math.Pi/180
		la2, lo2 := float64(y[0])*math.Pi/180, float64(y[1])*math.Pi/180
		s1 := math.Sin((la1 - la2) / 2)
		s2 := math.Sin((lo1 - lo2) / 2)
		a := s1*s1 + math.Cos(la1)*math.Cos(la2)*s2*s2
		if a > 1 {
			a = 1
		}
		return 2 * R * math.Asin(math.Sqrt(a))
	}
	special := [][2]float32{{0, 0}, {90, 0}, {-90, 0}, {0, 180}, {0, -180}, {45, 45}, {51.5, -0.12}, {-33.86, 151.2}, {89.9999, 179.9999}, {-89.9999, -179.9999}}
	for i := 0; i < 40000; i++ {
		x := ra.FloatsAtEnd(2)
		y := rb.FloatsAtEnd(2)
		if i < len(special)*len(special) {
			a, b := special[i/len(special)], special[i%len(special)]
			x[0], x[1], y[0], y[1] = a[0], a[1], b[0], b[1]
		} else {
			x[0], x[1] = rng.Float32()*180-90, rng.Float32()*360-180
			if i%3 == 0 { // close points
				y[0], y[1] = x[0]+(rng.Float32()-0.5)*0.01, x[1]+(rng.Float32()-0.5)*0.01
			} else {
				y[0], y[1] = rng.Float32()*180-90, rng.Float32()*360-180
			}
		}
		got := float64(hav(x, y))
		want := ref(x, y)
		res.Eval(true, "haversine", x[0], x[1], y[0], y[1])
		tol := math.Abs(want)*math.Ldexp(1, -22) + 1e-3
		if math.IsNaN(got) || math.Abs(got-want) > tol {
			res.Violate("distance-mismatch", "haversine:mismatch", fmt.Sprintf("haversine(%v,%v) = %g, reference %g", x, y, got, want), nil)
		}
		if rev := float64(hav(y, x)); math.Abs(rev-got) > tol {
			res.Violate("asymmetric", "haversine:asymmetric", fmt.Sprintf("haversine(%v,%v) = %g but reversed %g", x, y, got, rev), nil)
		}
	}
	res.Sample(map[string]any{"metric": "haversine", "pairs": 40000, "includes": "poles, antimeridian, near-identical points"})
}

// c20PQ: the quantised distances of a trained product quantiser are the metric between
// reconstructions: query (or point A's centroids) against point B's centroids, sub-vector by
// sub-vector. Both forms rank candidates (search: float -> point; graph building and pruning:
// point -> point), so both are compared with the metric evaluated on the centroids the store itself
// persisted, for euclidean, dot and cosine (documented to fall back to euclidean), for pairs that share
// centroids in some, all or no sub-vectors, and for symmetry.
func c20PQ(res *fw.CaseResult, rng *rand.Rand) {
	type cfg struct{ dim, sub, cent int }
	for _, metric := range []string{models.DistanceEuclidean, models.DistanceDot, models.DistanceCosine} {
		for _, cf := range []cfg{{8, 2, 16}, {12, 3, 8}, {6, 6, 4}, {16, 4, 32}, {5, 1, 8}} {
			n := max(64, cf.cent*4)
			bucket := diskstore.NewMemBucket(false)
			q := &models.Quantizer{Type: models.QuantizerProduct, Product: &models.ProductQuantizerParameters{NumCentroids: cf.cent, NumSubVectors: cf.sub, TriggerThreshold: n}}
			vs, err := vectorstore.New(q, bucket, metric, cf.dim)
			if err != nil {
				res.Violate("store-error", "pq-store:new", err.Error(), nil)
				continue
			}
			vecs := make([][]float32, n)
			pts := make([]vectorstore.VectorStorePoint, n)
			// data far from the origin relative to its spread: a distance computed from norms and a dot
			// product (|a|^2 - 2ab + |b|^2) cancels catastrophically there, the definition does not
			shift := []float32{0, 3000, -20000}[rng.IntN(3)]
			if metric == models.DistanceCosine {
				shift = 0
			}
			for i := range vecs {
				v := make([]float32, cf.dim)
				var norm float64
				for j := range v {
					// a few clusters per coordinate so that points share centroids, off-centre so that
					// centroid norms are far from zero (the dot product of a centroid with itself is not 0)
					v[j] = float32(1+rng.IntN(3)) + rng.Float32()*0.2
					if rng.IntN(4) == 0 {
						v[j] = -v[j]
					}
					v[j] += shift
					norm += float64(v[j]) * float64(v[j])
				}
				if metric == models.DistanceCosine {
					for j := range v {
						v[j] = float32(float64(v[j]) / math.Sqrt(norm))
					}
				}
				vecs[i] = v
			}
			for i := range vecs {
				if _, err := vs.Set(uint64(i+2), append([]float32{}, vecs[i]...)); err != nil {
					res.Violate("store-error", "pq-store:set", err.Error(), nil)
				}
			}
			if err := vs.Fit(); err != nil {
				res.Violate("store-error", "pq-store:fit", err.Error(), nil)
				continue
			}
			if err := vs.Flush(); err != nil {
				res.Violate("store-error", "pq-store:flush", err.Error(), nil)
				continue
			}
			cb := bucket.Get([]byte("_productQuantizerFlatCentroids"))
			if cb == nil {
				res.Violate("store-error", "pq-store:untrained", fmt.Sprintf("%d vectors stored with trigger %d but no centroids were persisted", n, n), nil)
				continue
			}
			cents := sx.Floats(cb)
			sl := cf.dim / cf.sub
			codes := make([][]byte, n)
			for i := range vecs {
				p, err := vs.Get(uint64(i + 2))
				if err != nil {
					res.Violate("store-error", "pq-store:get", err.Error(), nil)
					continue
				}
				pts[i] = p
				codes[i] = bucket.Get(conversion.NodeKey(uint64(i+2), 'q'))
			}
			pqMetric := metric
			if metric == models.DistanceCosine {
				pqMetric = models.DistanceEuclidean
			}
			cent := func(sub int, c byte) []float32 {
				st := sub*cf.cent*sl + int(c)*sl
				return cents[st : st+sl]
			}
			expect := func(x []float32, xc, yc []byte) model.Dist {
				var tot model.Dist
				for i := 0; i < cf.sub; i++ {
					a := cent(i, yc[i])
					var b []float32
					if xc != nil {
						b = cent(i, xc[i])
					} else {
						b = x[i*sl : (i+1)*sl]
					}
					d := model.Metric(pqMetric, b, a)
					tot.V += d.V
					tot.S += d.S + math.Abs(d.V)
				}
				tot.N = cf.dim + cf.sub
				return tot
			}
			shared := 0
			for t := 0; t < 400; t++ {
				a, b := rng.IntN(n), rng.IntN(n)
				if t%10 == 0 {
					b = a
				}
				if pts[a] == nil || pts[b] == nil || len(codes[a]) != cf.sub || len(codes[b]) != cf.sub {
					res.Violate("store-error", "pq-store:code", fmt.Sprintf("point %d/%d has no persisted product code after training", a, b), nil)
					break
				}
				for i := 0; i < cf.sub; i++ {
					if codes[a][i] == codes[b][i] {
						shared++
						break
					}
				}
				res.Eval(true, "pq", metric, cf.dim, cf.sub, cf.cent, t)
				wantPP := expect(nil, codes[a], codes[b])
				gotPP := float64(vs.DistanceFromPoint(pts[a])(pts[b]))
				gotPPr := float64(vs.DistanceFromPoint(pts[b])(pts[a]))
				query := vecs[rng.IntN(n)]
				wantFP := expect(query, nil, codes[b])
				gotFP := float64(vs.DistanceFromFloat(query)(pts[b]))
				if math.Abs(gotPP-wantPP.V) > wantPP.Bound()+1e-30 {
					res.Violate("distance-mismatch", "pq:"+metric+":point-to-point", fmt.Sprintf("product quantiser %s dim %d, %d sub-vectors, %d centroids: distance between stored points with codes %v and %v is %g, the metric between their centroids gives %g", metric, cf.dim, cf.sub, cf.cent, codes[a], codes[b], gotPP, wantPP.V), nil)
				}
				if math.Abs(gotPP-gotPPr) > wantPP.Bound()+1e-30 {
					res.Violate("asymmetric", "pq:"+metric+":asymmetric", fmt.Sprintf("product quantiser %s: d(a,b)=%g but d(b,a)=%g for codes %v %v", metric, gotPP, gotPPr, codes[a], codes[b]), nil)
				}
				if math.Abs(gotFP-wantFP.V) > wantFP.Bound()+1e-30 {
					res.Violate("distance-mismatch", "pq:"+metric+":float-to-point", fmt.Sprintf("product quantiser %s dim %d: distance from query %v to the point with code %v is %g, the metric against its centroids gives %g", metric, cf.dim, query, codes[b], gotFP, wantFP.V), nil)
				}
			}
			res.Stat("pq_pairs_sharing_a_centroid", int64(shared))
		}
	}
	res.Sample(map[string]any{"product quantiser": "euclidean, dot, cosine x 5 (dim, sub-vectors, centroids) settings", "via": "vectorstore.New(product) Set/Fit/Flush on a memory bucket; DistanceFromPoint / DistanceFromFloat vs the metric on the persisted centroids"})
}
