package props

import (
	"fmt"
	"math"
	"sort"
	"strings"
	"time"

	"github.com/google/uuid"
	"github.com/semafind/semadb/models"
	"semaverif/fw"
	"semaverif/gen"
	"semaverif/model"
	"semaverif/sx"
)

// C05: text search matches, ranks and limits by tf-idf over the current corpus.
type c05 struct{}

func init() { fw.Register(c05{}) }

func (c05) ID() string    { return "C05" }
func (c05) Level() string { return "exploration" }
func (c05) Rule() string {
	return "unit = (corpus state, text query): histories of 20 batches that insert, rewrite, blank out (only stop words / punctuation / empty) and delete text fields over a 48-word vocabulary with stop words, mixed case, unicode and words that differ only within a case-folding orbit (µm/μm, ſeven/seven), plus near rewrites (case only, fold-orbit rune swaps, spacing only); after every batch queries with 1..5 terms, repeated terms, stop-word-only, mixed case, both operators, limits 1..75, weights and model-evaluated pre-filters. Oracle: independent tf-idf (same bleve standard analyser instance in the harness, own N/df/tf/len bookkeeping), tie-aware top-limit cut, hybrid = weight*score. Non-trivial = at least two matches with different scores, or the cut removes something; distinct by (corpus digest, request)."
}
func (c05) Assumptions() []string {
	return []string{"the analyser (bleve standard) is trusted; the property is about the index", "a containsAll query that analyses to zero terms may return nothing or everything (both readings accepted, counted)", "score tolerance 4*k*2^-24*sum|term contributions| for k query terms (map iteration order of the summation)"}
}
func (c05) Floor(tier string) int {
	if tier == "thorough" {
		return 20000
	}
	return 1000
}
func (c05) Timeout(string) time.Duration { return 20 * time.Minute }
func (c05) Parallel(string) int          { return 16 }

func (c05) Cases(tier string, seed uint64) []fw.Case {
	n := 160
	if tier == "thorough" {
		n = 1600
	}
	cs := make([]fw.Case, n)
	for i := range cs {
		cs[i] = fw.Case{Seed: fw.CaseSeed(seed, "C05", i), Name: fmt.Sprintf("history%d", i), Params: map[string]any{"steps": 20, "cache": []string{"unlimited", "zero"}[i%2]}}
	}
	return cs
}

func textQuery(g *gen.G) string {
	v := g.Vocabulary
	switch g.R.IntN(10) {
	case 0:
		return "the of and" // stop words only
	case 1:
		return "!!! ..." // no tokens
	case 2:
		w := v[g.R.IntN(len(v))]
		return w + " " + w + " " + strings.ToUpper(w) // repeated term
	}
	n := 1 + g.R.IntN(5)
	parts := make([]string, n)
	for i := range parts {
		w := v[g.R.IntN(len(v))]
		switch g.R.IntN(4) {
		case 0:
			w = strings.ToUpper(w)
		case 1:
			w = strings.ToLower(w)
		}
		parts[i] = w
	}
	if g.R.IntN(8) == 0 {
		parts = append(parts, "zzzunknown")
	}
	return strings.Join(parts, " ")
}

func corpusDigest(c *model.Corpus) uint64 {
	ids := make([]string, 0, len(c.Docs))
	for id, td := range c.Docs {
		terms := make([]string, 0, len(td.Freq))
		for t, f := range td.Freq {
			terms = append(terms, fmt.Sprintf("%s:%d", t, f))
		}
		sort.Strings(terms)
		ids = append(ids, id.String()+"="+strings.Join(terms, ","))
	}
	sort.Strings(ids)
	return fw.Hash64(strings.Join(ids, ";"))
}

func (c05) RunCase(c fw.Case, env *fw.Env) *fw.CaseResult {
	res := fw.NewResult()
	schema := models.IndexSchema{"txt": gen.Text(), "n": gen.Int(), "tags": gen.StrArr(false), "meta.body": gen.Text()}
	g := gen.New(c.Seed, schema)
	g.PresentProb = 0.85
	s, err := sx.Open(shardPath(env, "c05"), schema, newCacheManager(c.Str("cache", "unlimited")), 0)
	if err != nil {
		res.Note("open: %v", err)
		res.Inconclusive++
		return res
	}
	defer s.Close()
	m := model.New()
	h := gen.NewHistory(g)
	h.MaxBatch = 30
	h.WUpdate = 5
	steps := c.Int("steps", 20)
	for step := 0; step < steps; step++ {
		op := h.Next(m)
		if step%5 == 4 && len(m.Docs) > 2 {
			// one batch names a point twice: the text is taken away and given back (or replaced) in
			// the same request
			op = gen.Op{Kind: gen.OpUpdate, Tag: "remove-and-readd-text"}
			ids := m.SortedIds()
			for i := 0; i < min(5, len(ids)); i++ {
				id := ids[g.R.IntN(len(ids))]
				field := []string{"txt", "meta"}[g.R.IntN(2)]
				op.Points = append(op.Points, model.Point{Id: id, Doc: model.Doc{field: model.DeleteValue}})
				if field == "txt" {
					op.Points = append(op.Points, model.Point{Id: id, Doc: model.Doc{"txt": g.Text()}})
				} else {
					op.Points = append(op.Points, model.Point{Id: id, Doc: model.Doc{"meta": map[string]any{"body": g.Text()}}})
				}
			}
		}
		ok, out := applyOp(res, "C05", s, m, op, step)
		if !ok {
			return res
		}
		h.Applied(op, out.Deleted)
		res.Stat("batches", 1)
		for _, field := range []string{"txt", "meta.body"} {
			corpus := m.BuildCorpus(field)
			digest := corpusDigest(corpus)
			nq := 14
			if field != "txt" {
				nq = 4
			}
			for qi := 0; qi < nq; qi++ {
				value := textQuery(g)
				all := g.R.IntN(2) == 0
				opName := models.OperatorContainsAny
				if all {
					opName = models.OperatorContainsAll
				}
				limit := []int{1, 2, 3, 5, 10, 30, 75}[g.R.IntN(7)]
				w := weights[g.R.IntN(len(weights))]
				var filter *models.Query
				var fset map[uuid.UUID]bool
				fdesc := ""
				if g.R.IntN(4) == 0 {
					filter, fset, fdesc = genFilter(g, m, schema)
				}
				req := models.SearchRequest{Query: models.Query{Property: field, Text: &models.SearchTextOptions{Value: value, Operator: opName, Limit: limit, Filter: filter, Weight: w}}, Limit: 100}
				if req.Validate() != nil || req.Query.ValidateSchema(schema) != nil {
					continue
				}
				terms := model.Analyse(value)
				want := corpus.Query(terms, all, fset)
				hits, err := s.Search(req)
				distinctScores := false
				for i := 1; i < len(want); i++ {
					if want[i].Score != want[0].Score {
						distinctScores = true
					}
				}
				res.Eval(len(want) >= 2 && distinctScores || len(want) > limit, digest, field, value, opName, limit, fdesc, f32(w))
				res.Stat("queries", 1)
				if err != nil {
					res.Violate("search-error", "C05:search-error:"+errClass(err), fmt.Sprintf("step %d: text query %q %s failed: %v", step, value, opName, err), nil)
					continue
				}
				if len(terms) == 0 && all {
					res.Stat("zero_term_containsAll", 1)
					if len(hits) == 0 {
						continue // reading 1: nothing
					}
					// reading 2: everything (inside the filter) - scores are then all zero
					want = corpus.Query(nil, false, fset)
					want = want[:0]
					for id := range corpus.Docs {
						if fset == nil || fset[id] {
							want = append(want, model.TextHit{Id: id})
						}
					}
				}
				for _, p := range checkText(hits, want, limit, weightOf(w), len(terms)) {
					res.Violate("text-"+p.kind, "C05:"+p.kind, fmt.Sprintf("step %d field %s query %q (terms %q) %s limit %d filter %q corpus %d docs: %s", step, field, value, terms, opName, limit, fdesc, len(corpus.Docs), p.msg), nil)
				}
				if step == steps-1 && qi == 0 && field == "txt" {
					res.Sample(map[string]any{"query": value, "terms": terms, "operator": opName, "limit": limit, "filter": fdesc, "corpus_docs": len(corpus.Docs), "matches": len(want), "returned": len(hits)})
				}
			}
		}
	}
	return res
}

func checkText(hits []sx.Hit, want []model.TextHit, limit int, weight float32, k int) []problem {
	var out []problem
	add := func(kind, format string, a ...any) {
		if len(out) < 8 {
			out = append(out, problem{kind, fmt.Sprintf(format, a...)})
		}
	}
	ref := map[uuid.UUID]model.TextHit{}
	for _, w := range want {
		ref[w.Id] = w
	}
	tol := func(w model.TextHit) float64 {
		return 4*float64(k+1)*math.Ldexp(1, -24)*w.Mag + math.Ldexp(1, -100)
	}
	seen := map[uuid.UUID]bool{}
	for i, h := range hits {
		if seen[h.Id] {
			add("duplicate", "document %s returned twice", h.Id)
		}
		seen[h.Id] = true
		w, ok := ref[h.Id]
		if !ok {
			add("not-a-match", "result %d (%s, score %s) does not match the query (or is not live / outside the filter)", i, h.Id, f32(h.Score))
			continue
		}
		if h.Score == nil {
			add("no-score", "result %d (%s) carries no score", i, h.Id)
			continue
		}
		if math.Abs(float64(*h.Score)-w.Score) > tol(w) {
			add("wrong-score", "result %d (%s): score %g, tf-idf over the current corpus is %g (tolerance %g)", i, h.Id, *h.Score, w.Score, tol(w))
		}
		if wantH := weight * *h.Score; !closeF32(h.Hybrid, wantH) {
			add("wrong-hybrid", "result %d (%s): hybrid %g, expected weight*score = %g*%g = %g", i, h.Id, h.Hybrid, weight, *h.Score, wantH)
		}
		if i > 0 && hits[i-1].Score != nil && *hits[i-1].Score < *h.Score {
			add("order", "results %d,%d out of order: scores %g < %g", i-1, i, *hits[i-1].Score, *h.Score)
		}
	}
	wantN := min(limit, len(want))
	if len(hits) != wantN {
		add("count", "%d results, expected %d (matches %d, limit %d)", len(hits), wantN, len(want), limit)
	}
	if len(hits) > 0 && len(want) > len(hits) {
		last := hits[len(hits)-1]
		if lw, ok := ref[last.Id]; ok {
			for _, w := range want {
				if !seen[w.Id] && w.Score-tol(w) > lw.Score+tol(lw) {
					add("cut", "match %s with score %g is better than the last returned %s with %g but was cut", w.Id, w.Score, last.Id, lw.Score)
					break
				}
			}
		}
	}
	return out
}
