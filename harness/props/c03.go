package props

import (
	"fmt"
	"github.com/semafind/semadb/diskstore"
	"math/rand/v2"
	"os"
	"semaverif/proxy"
	"strings"
	"sync/atomic"
	"time"

	"github.com/google/uuid"
	"github.com/semafind/semadb/models"
	"github.com/semafind/semadb/shard/cache"
	"semaverif/fw"
	"semaverif/gen"
	"semaverif/model"
	"semaverif/sx"
)

// C03: graph (Vamana) vector search returns only live, in-filter points,
// correctly ranked; exact inside the two stated regimes.
// C10: the persisted similarity graph stays well-formed after every write.
// Both are driven by the same history runner; C03 judges search answers, C10
// judges the raw dump.
type c03 struct{}
type c10 struct{}

func init() { fw.Register(c03{}); fw.Register(c10{}) }

func (c03) ID() string    { return "C03" }
func (c03) Level() string { return "exploration" }
func (c03) Rule() string {
	return "unit = (graph state, vamana search request): histories of inserts, vector updates, vector removal via \"_delete\", vectors added by update, deletes of whole neighbourhoods, delete-all and id reuse, for metrics x quantisers (none, binary fixed/learned, product) x (degreeBound, alpha, searchSize) corners; after every batch 30 searches with limits 1..75, search sizes 25..75, weights {nil,0,negative,large} and pre-filters of size 0, 1, searchSize, searchSize+1, all. Every result is checked (live, has the field, inside the model-evaluated filter, no duplicate, not the entry node, <= limit, non-decreasing distances, reported distance = index distance recomputed from the stored vector / persisted quantiser state, hybrid = -weight*distance, no search error). Exact top-k is demanded only in regime (i) insert-only histories with at most min(degreeBound, searchSize-1) vectors and regime (ii) pre-filters with at most searchSize members. Non-trivial = at least one result and (a deleted/updated point exists, or a filter is set, or a regime applies); distinct by (graph digest, request). Plus cold pairs: tiny insert-only histories on a shard with the cache disabled (every batch starts cold), two to four points per request, seeded pauses at storage reads - every stored vector must be found."
}
func (c03) Assumptions() []string {
	return []string{"approximate search outside the two regimes is only held to per-result validity (recall is reported, never judged)", "cosine vectors unit-normalised", "quantised distances are recomputed from persisted thresholds/centroids and codes"}
}
func (c03) Floor(tier string) int {
	if tier == "thorough" {
		return 20000
	}
	return 1000
}
func (c03) Timeout(string) time.Duration { return 30 * time.Minute }
func (c03) Parallel(string) int          { return 16 }

func (c10) ID() string    { return "C10" }
func (c10) Level() string { return "exploration" }
func (c10) Rule() string {
	return "unit = raw dump of the index, points and internal buckets after a successful batch: exactly one graph node and one stored vector representation (v and/or q key) per live point carrying the vector field, plus the entry node 1; every edge leads to an existing node other than its source; out-degree <= degreeBound except for the entry node; _vamanaMaxNodeId bounds all ids in use; node ids unique among live points and never both live and free (allocator conservation); plus searches after each batch must not fail or surface removed points. Histories as C03 plus batches that remove and re-add the vector within one update batch, delete every neighbour of a node at once, delete all points and insert again, batches up to 300 points (15 concurrent insert workers), degree bounds {32,64}, alphas {1.1,1.5}, search sizes {25,75}. Non-trivial = a delete or vector update preceded the dump and the graph has >= 20 nodes; distinct by graph digest."
}
func (c10) Assumptions() []string {
	return []string{"duplicate edges are not in the statement and are only counted", "the entry node is required once the index bucket is non-empty"}
}
func (c10) Floor(tier string) int {
	if tier == "thorough" {
		return 4000
	}
	return 300
}
func (c10) Timeout(string) time.Duration { return 30 * time.Minute }
func (c10) Parallel(string) int          { return 16 }

type vamanaConfig struct {
	vecConfig
	SearchSize int
	Degree     int
	Alpha      float32
}

var vamanaConfigs = []vamanaConfig{
	{vecConfig{"euclidean", models.DistanceEuclidean, 6, "none", "", ""}, 75, 64, 1.2},
	{vecConfig{"euclidean-tight", models.DistanceEuclidean, 3, "none", "", ""}, 25, 32, 1.1},
	{vecConfig{"cosine", models.DistanceCosine, 8, "none", "", ""}, 40, 32, 1.5},
	{vecConfig{"dot", models.DistanceDot, 5, "none", "", ""}, 75, 32, 1.2},
	{vecConfig{"haversine", models.DistanceHaversine, 2, "none", "", ""}, 30, 32, 1.3},
	{vecConfig{"hamming", models.DistanceHamming, 40, "none", "", ""}, 50, 48, 1.2},
	{vecConfig{"jaccard", models.DistanceJaccard, 20, "none", "", ""}, 25, 32, 1.5},
	{vecConfig{"euclidean+bin-fixed-hamming", models.DistanceEuclidean, 24, "bin-fixed", models.DistanceHamming, ""}, 40, 32, 1.2},
	{vecConfig{"cosine+bin-learned-jaccard", models.DistanceCosine, 16, "bin-learned", models.DistanceJaccard, ""}, 60, 64, 1.2},
	{vecConfig{"euclidean+bin-learned-hamming", models.DistanceEuclidean, 70, "bin-learned", models.DistanceHamming, ""}, 25, 32, 1.1},
	{vecConfig{"euclidean+pq", models.DistanceEuclidean, 8, "pq", "", ""}, 50, 32, 1.2},
	{vecConfig{"dot+pq", models.DistanceDot, 6, "pq", "", ""}, 75, 64, 1.5},
	{vecConfig{"cosine+pq", models.DistanceCosine, 8, "pq", "", ""}, 30, 32, 1.2},
	{vecConfig{"euclidean-dim1", models.DistanceEuclidean, 1, "none", "", ""}, 25, 32, 1.1},
	// the vector lives under a nested property path (set, changed and removed through the parent key)
	{vecConfig{"euclidean-nested", models.DistanceEuclidean, 4, "none", "", "emb.v"}, 50, 32, 1.2},
	{vecConfig{"cosine-nested+bin-learned", models.DistanceCosine, 10, "bin-learned", models.DistanceHamming, "meta.deep.vec"}, 40, 32, 1.2},
}

func vamanaCases(prop string, tier string, seed uint64) []fw.Case {
	reps, steps := 8, 14
	if tier == "thorough" {
		reps, steps = 60, 24
	}
	var cs []fw.Case
	for r := 0; r < reps; r++ {
		for i, vc := range vamanaConfigs {
			if vc.Quant == "pq" && r%4 != 0 {
				continue
			}
			style := []string{"mixed", "small-insert-only", "mixed", "big-batches", "neighbourhoods", "line"}[(r*len(vamanaConfigs)+i)%6]
			if prop == "C03" && style == "big-batches" {
				style = "mixed"
			}
			cs = append(cs, fw.Case{Seed: fw.CaseSeed(seed, prop+vc.Name, r), Name: vc.Name + "/" + style, Params: map[string]any{"config": i, "steps": steps, "style": style}})
		}
	}
	return cs
}

func (c03) Cases(tier string, seed uint64) []fw.Case {
	cs := vamanaCases("C03", tier, seed)
	// cold pairs: see c03ColdPairs
	n, hist := 12, 300
	if tier == "thorough" {
		n, hist = 32, 900
	}
	for i := 0; i < n; i++ {
		cs = append(cs, fw.Case{Seed: fw.CaseSeed(seed, "C03cold", i), Name: fmt.Sprintf("cold-pairs%d", i), Params: map[string]any{"cold_histories": hist}})
	}
	return cs
}

// c03ColdPairs: many tiny insert-only histories on a file-backed shard whose cache is disabled, so
// every batch starts cold: one point, then two or three points in ONE request, then two more. The
// insert workers of a request run concurrently and all have to fetch the same few nodes (the entry
// node, the first point) from storage; storage reads pause now and then. The collection always fits
// inside the search window and was built by inserts, so every search must return every stored
// vector: a back edge lost between two workers shows as a vector that is never found.
func c03ColdPairs(c fw.Case, env *fw.Env) *fw.CaseResult {
	res := fw.NewResult()
	rng := rand.New(rand.NewPCG(c.Seed, 303))
	vc := vecConfig{Name: "cold", Metric: models.DistanceEuclidean, Dim: 3, Quant: "none"}
	schema := vectorSchema("vamana", vc, 75, 32, 1.2)
	for h := 0; h < c.Int("cold_histories", 100); h++ {
		path := shardPath(env, fmt.Sprintf("cold%d", h))
		s, err := sx.Open(path, schema, cache.NewManager([]int64{0, 0, 1500}[h%3]), 0)
		if err != nil {
			res.Inconclusive++
			return res
		}
		var px *proxy.Proxy
		s.Shard.VerifWrapDiskStore(func(ds diskstore.DiskStore) diskstore.DiskStore {
			px = proxy.Wrap(ds)
			return px
		})
		var pauses atomic.Uint64
		hs := c.Seed + uint64(h)
		px.OpHook = func(bucket, kind string, key []byte) {
			if kind == "get" && strings.HasPrefix(bucket, "index/") && fw.SplitMix(hs^pauses.Add(1))%3 == 0 {
				time.Sleep(time.Duration(100+fw.SplitMix(hs+pauses.Load())%600) * time.Microsecond)
			}
		}
		g := gen.New(hs, schema)
		g.NoLattice = true
		m := model.New()
		for step, n := range []int{1, 2 + rng.IntN(2), 2, 1 + rng.IntN(4)} {
			op := gen.Op{Kind: gen.OpInsert, Tag: fmt.Sprintf("cold-insert-%d", n)}
			for i := 0; i < n; i++ {
				op.Points = append(op.Points, model.Point{Id: g.NewId(), Doc: model.Doc{"v": g.Vector(3, models.DistanceEuclidean)}})
			}
			ok, _ := applyOp(res, "C03", s, m, op, step)
			if !ok {
				s.Close()
				return res
			}
			hits, err := s.Search(models.SearchRequest{Query: models.Query{Property: "v", VectorVamana: &models.SearchVectorVamanaOptions{Vector: g.Vector(3, models.DistanceEuclidean), Operator: models.OperatorNear, SearchSize: 75, Limit: 75}}, Limit: 100})
			res.Eval(n >= 2, "cold-pairs", hs, step)
			res.Stat("cold_batches", 1)
			if err != nil {
				res.Violate("search-error", "C03:cold-search:"+errClass(err), fmt.Sprintf("history %d step %d: search failed: %v", h, step, err), nil)
				continue
			}
			got := map[uuid.UUID]bool{}
			for _, hh := range hits {
				got[hh.Id] = true
			}
			for _, id := range m.SortedIds() {
				if !got[id] {
					res.Violate("vamana-missing-exact", "C03:cold-pairs-missing", fmt.Sprintf("history %d: after inserting %d points in one request into a graph read cold (%d stored vectors in all, search window 75) a search returns %d results and misses %s", h, n, len(m.Docs), len(hits), id), nil)
					break
				}
			}
		}
		s.Close()
		os.RemoveAll(path)
		if len(res.Violations) > 6 {
			break
		}
	}
	return res
}
func (c10) Cases(tier string, seed uint64) []fw.Case {
	cs := vamanaCases("C10", tier, seed)
	// many fresh graphs built by ONE insert batch each, with vectors of a dimension at which nodes really
	// reach the degree bound: the insert workers of a batch run concurrently, so whether the bound holds
	// is a matter of scheduling; every batch is a new try
	n, rounds := 6, 60
	if tier == "thorough" {
		n, rounds = 16, 120
	}
	for i := 0; i < n; i++ {
		cs = append(cs, fw.Case{Seed: fw.CaseSeed(seed, "C10race", i), Name: fmt.Sprintf("concurrent-insert-batches%d", i), Params: map[string]any{"race_rounds": rounds}})
	}
	// tiny chains: see c10TinyChains
	tn, chains := 8, 150
	if tier == "thorough" {
		tn, chains = 32, 600
	}
	for i := 0; i < tn; i++ {
		cs = append(cs, fw.Case{Seed: fw.CaseSeed(seed, "C10chain", i), Name: fmt.Sprintf("tiny-chains%d", i), Params: map[string]any{"chains": chains}})
	}
	return cs
}

func (c03) RunCase(c fw.Case, env *fw.Env) *fw.CaseResult {
	if c.Int("cold_histories", 0) > 0 {
		return c03ColdPairs(c, env)
	}
	return runVamana(c, env, "C03")
}
func (c10) RunCase(c fw.Case, env *fw.Env) *fw.CaseResult {
	if c.Int("race_rounds", 0) > 0 {
		return c10InsertRace(c, env)
	}
	if c.Int("chains", 0) > 0 {
		return c10TinyChains(c, env)
	}
	return runVamana(c, env, "C10")
}

// c10InsertRace: see Cases. After each single-batch build the raw dump is judged by the same invariants.
func c10InsertRace(c fw.Case, env *fw.Env) *fw.CaseResult {
	res := fw.NewResult()
	rng := rand.New(rand.NewPCG(c.Seed, 10))
	for round := 0; round < c.Int("race_rounds", 40); round++ {
		dim := []int{16, 12, 24}[round%3]
		degree := []int{32, 32, 48}[round%3]
		alpha := []float32{1.5, 1.2, 1.5}[rng.IntN(3)]
		vc := vecConfig{Name: "race", Metric: models.DistanceEuclidean, Dim: dim, Quant: "none"}
		schema := vectorSchema("vamana", vc, 50, degree, alpha)
		sv := schema["v"]
		path := shardPath(env, fmt.Sprintf("race%d", round))
		s, err := sx.Open(path, schema, cache.NewManager(-1), 0)
		if err != nil {
			res.Inconclusive++
			return res
		}
		g := gen.New(c.Seed+uint64(round), schema)
		g.NoLattice = true
		g.PresentProb = 1
		g.ExtraProb = 0
		n := []int{100, 150, 300, 120}[rng.IntN(4)]
		op := gen.Op{Kind: gen.OpInsert, Tag: fmt.Sprintf("single-batch-%d", n)}
		for i := 0; i < n; i++ {
			op.Points = append(op.Points, model.Point{Id: g.NewId(), Doc: g.Doc()})
		}
		m := model.New()
		ok, _ := applyOp(res, "C10", s, m, op, round)
		if !ok {
			s.Close()
			return res
		}
		dump, err := sx.DumpStore(s.Shard.VerifDiskStore(), schema)
		s.Close()
		os.RemoveAll(path)
		if err != nil {
			res.Violate("dump-error", "C10:dump", err.Error(), nil)
			return res
		}
		probs, nodes, _ := graphInvariants(dump, "v", sv, m)
		res.Eval(nodes >= 20, "race", c.Seed, round)
		res.Stat("single_batch_graphs", 1)
		gv := dump.Graph(indexBucket("v", sv))
		full := 0
		for id, e := range gv.Edges {
			if id != 1 && len(e) >= degree {
				full++
			}
		}
		res.Stat("nodes_at_the_degree_bound", int64(full))
		for _, p := range probs {
			res.Violate("graph-"+p.kind, "C10:"+p.kind, fmt.Sprintf("graph built by one insert batch of %d %d-dimensional points (degree bound %d, alpha %g), round %d: %s", n, dim, degree, alpha, round, p.msg), nil)
		}
		if len(res.Violations) > 6 {
			break
		}
	}
	return res
}

// c10TinyChains: many tiny histories on collinear points at doubling distances, inserted one request
// each (which gives chains and, after deletions, one-directional edges from the entry node or from
// "saved" nodes), with deletions of arbitrary subsets in one batch - including everything, the tail,
// and the only neighbours of a node. The raw dump is judged after every batch; a search on the warm
// instance and on a cold reopen must not fail.
func c10TinyChains(c fw.Case, env *fw.Env) *fw.CaseResult {
	res := fw.NewResult()
	rng := rand.New(rand.NewPCG(c.Seed, 1010))
	vc := vecConfig{Name: "chain", Metric: models.DistanceEuclidean, Dim: 2, Quant: "none"}
	schema := vectorSchema("vamana", vc, 25, 32, 1.2)
	sv := schema["v"]
	search := func(s *sx.Sx, x float32) error {
		_, err := s.Search(models.SearchRequest{Query: models.Query{Property: "v", VectorVamana: &models.SearchVectorVamanaOptions{Vector: []float32{x, 0}, Operator: models.OperatorNear, SearchSize: 25, Limit: 10}}, Limit: 10})
		return err
	}
	for h := 0; h < c.Int("chains", 200); h++ {
		path := shardPath(env, fmt.Sprintf("tiny%d", h))
		cm := cache.NewManager([]int64{-1, -1, 0}[h%3])
		s, err := sx.Open(path, schema, cm, 0)
		if err != nil {
			res.Inconclusive++
			return res
		}
		g := gen.New(c.Seed+uint64(h), schema)
		m := model.New()
		var order []uuid.UUID // insertion order of the live points
		next := 0
		script := []string{}
		steps := 4 + rng.IntN(8)
		for step := 0; step < steps; step++ {
			var op gen.Op
			if len(order) == 0 || rng.IntN(5) < 3 {
				op = gen.Op{Kind: gen.OpInsert, Tag: "chain-insert"}
				for k := 0; k < 1+rng.IntN(6)/5; k++ {
					x := float32(10 * (int(1) << (next % 12)))
					if rng.IntN(6) == 0 {
						x = -x
					}
					next++
					id := g.NewId()
					op.Points = append(op.Points, model.Point{Id: id, Doc: model.Doc{"v": []float32{x, 0}}})
					order = append(order, id)
				}
				script = append(script, fmt.Sprintf("insert %d", len(op.Points)))
			} else {
				op = gen.Op{Kind: gen.OpDelete, Tag: "chain-delete"}
				n := len(order)
				var pick []int
				switch rng.IntN(4) {
				case 0: // a prefix in insertion order
					for i := 0; i < 1+rng.IntN(n); i++ {
						pick = append(pick, i)
					}
				case 1: // a suffix
					for i := n - 1 - rng.IntN(n); i < n; i++ {
						pick = append(pick, i)
					}
				case 2: // everything
					for i := 0; i < n; i++ {
						pick = append(pick, i)
					}
				default: // any subset
					for i := 0; i < n; i++ {
						if rng.IntN(2) == 0 {
							pick = append(pick, i)
						}
					}
					if len(pick) == 0 {
						pick = []int{rng.IntN(n)}
					}
				}
				gone := map[int]bool{}
				for _, i := range pick {
					op.Ids = append(op.Ids, order[i])
					gone[i] = true
				}
				keep := order[:0:0]
				for i, id := range order {
					if !gone[i] {
						keep = append(keep, id)
					}
				}
				order = keep
				script = append(script, fmt.Sprintf("delete %v of %d", pick, n))
			}
			ok, _ := applyOp(res, "C10", s, m, op, step)
			if !ok {
				s.Close()
				return res
			}
			dump, err := sx.DumpStore(s.Shard.VerifDiskStore(), schema)
			if err != nil {
				res.Violate("dump-error", "C10:dump", err.Error(), nil)
				s.Close()
				return res
			}
			probs, nodes, _ := graphInvariants(dump, "v", sv, m)
			res.Eval(op.Kind == gen.OpDelete && nodes >= 1, "tiny-chain", fw.Hash64(script))
			res.Stat("tiny_chain_dumps", 1)
			for _, p := range probs {
				res.Violate("graph-"+p.kind, "C10:"+p.kind, fmt.Sprintf("tiny chain (one point per request on a line at doubling distances), history %v: %s", script, p.msg), nil)
			}
			if err := search(s, float32(rng.IntN(2000))); err != nil {
				res.Violate("search-error", "C10:chain-search:"+errClass(err), fmt.Sprintf("tiny chain, history %v: a search on the running instance fails: %v", script, err), nil)
			}
		}
		s.Close()
		if cold, err := sx.Open(path, schema, nil, 0); err == nil {
			if err := search(cold, float32(rng.IntN(2000))); err != nil {
				res.Violate("search-error", "C10:chain-search-cold:"+errClass(err), fmt.Sprintf("tiny chain, history %v: a search on a reopened instance fails: %v", script, err), nil)
			}
			cold.Close()
		}
		os.RemoveAll(path)
		if len(res.Violations) > 6 {
			break
		}
	}
	return res
}

// graphInvariants evaluates C10's statement on a dump.
func graphInvariants(d *sx.Dump, prop string, sv models.IndexSchemaValue, m *model.Model) (problems []problem, nodes int, dupEdges int) {
	add := func(kind, format string, a ...any) {
		if len(problems) < 12 {
			problems = append(problems, problem{kind, fmt.Sprintf(format, a...)})
		}
	}
	bucket := indexBucket(prop, sv)
	g := d.Graph(bucket)
	pv := d.Points()
	dim, _, _ := gen.VectorParams(sv)
	expected := map[uint64]uuid.UUID{}
	for id, doc := range m.Docs {
		if v, ok := model.AsVector(doc, prop); ok && len(v) == dim {
			n, has := pv.IdToNode[id]
			if !has {
				add("no-node-id", "live point %s has no node id", id)
				continue
			}
			if prev, dup := expected[n]; dup {
				add("node-id-shared", "node id %d is used by both %s and %s", n, prev, id)
			}
			expected[n] = id
		}
	}
	nonEmpty := len(d.Buckets[bucket]) > 0
	if !nonEmpty && len(expected) == 0 {
		return nil, 0, 0
	}
	if _, ok := g.Edges[1]; !ok {
		add("no-entry-node", "the index bucket is non-empty but the entry node 1 has no edge list")
	}
	for n, id := range expected {
		if _, ok := g.Edges[n]; !ok {
			add("missing-node", "live point %s (node %d) carries the vector field but has no graph node", id, n)
		}
	}
	for n := range g.Edges {
		if n == 1 {
			continue
		}
		if _, ok := expected[n]; !ok {
			add("stale-node", "graph node %d belongs to no live point carrying the vector field (uuid of that node id: %v)", n, pv.NodeToId[n])
		}
	}
	for n := range g.Edges {
		_, hv := g.Vectors[n]
		_, hq := g.Codes[n]
		if !hv && !hq {
			add("node-without-vector", "graph node %d has neither a stored vector nor a quantised code", n)
		}
	}
	for n := range g.Vectors {
		if _, ok := g.Edges[n]; !ok {
			add("vector-without-node", "stored vector for node %d but no graph node", n)
		}
	}
	for n := range g.Codes {
		if _, ok := g.Edges[n]; !ok {
			add("code-without-node", "stored code for node %d but no graph node", n)
		}
	}
	degree := sv.VectorVamana.DegreeBound
	var maxId uint64
	for n, edges := range g.Edges {
		if n > maxId {
			maxId = n
		}
		seen := map[uint64]bool{}
		for _, e := range edges {
			if e == n {
				add("self-edge", "node %d has an edge to itself", n)
			}
			if _, ok := g.Edges[e]; !ok {
				add("dangling-edge", "node %d has an edge to %d which is not a graph node (live uuid for that node id: %v)", n, e, pv.NodeToId[e])
			}
			if seen[e] {
				dupEdges++
			}
			seen[e] = true
		}
		if n != 1 && len(edges) > degree {
			add("degree", "node %d has %d edges, degree bound is %d", n, len(edges), degree)
		}
	}
	if len(g.Edges) > 0 {
		if !g.HasMax {
			add("max-node-id", "no _vamanaMaxNodeId recorded although the graph has nodes")
		} else if g.MaxNodeId < maxId {
			add("max-node-id", "_vamanaMaxNodeId is %d but node id %d is in use", g.MaxNodeId, maxId)
		}
	}
	for k := range g.Other {
		switch k {
		case "_binaryQuantizerThreshold", "_productQuantizerFlatCentroids", "_productQuantizerCentroidDists":
		default:
			add("unknown-key", "unexpected key %q in the index bucket", k)
		}
	}
	return problems, len(g.Edges), dupEdges
}

func runVamana(c fw.Case, env *fw.Env, prop string) *fw.CaseResult {
	res := fw.NewResult()
	vc := vamanaConfigs[c.Int("config", 0)]
	style := c.Str("style", "mixed")
	schema := vectorSchema("vamana", vc.vecConfig, vc.SearchSize, vc.Degree, vc.Alpha)
	vp := vc.prop()
	sv := schema[vp]
	// documents that set / remove the vector field through its top-level key (the update API merges shallowly)
	vecDoc := func(v any) model.Doc {
		segs := strings.Split(vp, ".")
		for i := len(segs) - 1; i > 0; i-- {
			v = map[string]any{segs[i]: v}
		}
		return model.Doc{segs[0]: v}
	}
	dropVec := func(d model.Doc) {
		segs := strings.Split(vp, ".")
		cur := map[string]any(d)
		for i, sg := range segs {
			if i == len(segs)-1 {
				delete(cur, sg)
				return
			}
			next, ok := cur[sg].(map[string]any)
			if !ok {
				return
			}
			cur = next
		}
	}
	g := gen.New(c.Seed, schema)
	g.PresentProb = 0.85
	if style == "line" {
		// sparse chain-like graph: small batches of collinear points
		g.Line = true
		g.PresentProb = 0.95
	}
	path := shardPath(env, "vamana")
	cm := cache.NewManager(-1)
	s, err := sx.Open(path, schema, cm, 0)
	if err != nil {
		res.Note("open: %v", err)
		res.Inconclusive++
		return res
	}
	defer s.Close()
	if style == "small-insert-only" {
		// The insert workers of one batch run concurrently. When the index cache is cold at the start
		// of a batch they all miss on the same few nodes (the entry node first) and read them from
		// storage at the same moment. Storage reads pause now and then, and the cache is released
		// before half of the batches: in this style the index is small enough for searches to be
		// exact, so an edge lost between two such workers shows as a stored vector that is not found.
		var px *proxy.Proxy
		s.Shard.VerifWrapDiskStore(func(ds diskstore.DiskStore) diskstore.DiskStore {
			px = proxy.Wrap(ds)
			return px
		})
		var pauses atomic.Uint64
		px.OpHook = func(bucket, kind string, key []byte) {
			if kind == "get" && strings.HasPrefix(bucket, "index/") && fw.SplitMix(c.Seed^pauses.Add(1))%6 == 0 {
				time.Sleep(200 * time.Microsecond)
			}
		}
	}
	m := model.New()
	h := gen.NewHistory(g)
	h.MaxBatch = 35
	h.RejectProb = 0.06
	if style == "line" {
		h.MaxBatch = 4
		h.WDelete = 4
	}
	steps := c.Int("steps", 12)
	if style == "line" {
		steps *= 3
	}
	insertOnly := style == "small-insert-only"
	regimeCap := min(vc.Degree, 74) // the largest query searchSize is 75, so n <= searchSize-1 can be met up to 74
	mutated := false                // a delete or vector update happened
	nSearch := 30
	if prop == "C10" {
		nSearch = 6
	}
	tw := newTrainWatch(vp, sv)
	for step := 0; step < steps; step++ {
		var op gen.Op
		switch {
		case step == 0 && vc.Quant == "pq" && !insertOnly:
			op = gen.Op{Kind: gen.OpInsert, Tag: "bulk-insert-for-training"}
			// every bulk point carries its vector fields: the trigger (1000) must really be crossed
			keep := g.PresentProb
			g.PresentProb = 1
			for i := 0; i < 1040; i++ {
				op.Points = append(op.Points, model.Point{Id: g.NewId(), Doc: g.Doc()})
			}
			g.PresentProb = keep
		case insertOnly:
			op = gen.Op{Kind: gen.OpInsert, Tag: "insert-only"}
			room := regimeCap - countWithVector(m, vp, vc.Dim)
			n := min(room, 1+g.R.IntN(12))
			for i := 0; i < n; i++ {
				d := g.Doc()
				op.Points = append(op.Points, model.Point{Id: g.NewId(), Doc: d})
			}
			// never exceed the regime: drop vectors from the surplus
			cnt := countWithVector(m, vp, vc.Dim)
			for i := range op.Points {
				if _, ok := model.AsVector(op.Points[i].Doc, vp); ok {
					if cnt >= regimeCap {
						dropVec(op.Points[i].Doc)
					} else {
						cnt++
					}
				}
			}
		case style == "big-batches" && step%3 == 0:
			op = gen.Op{Kind: gen.OpInsert, Tag: "big-insert"}
			for i := 0; i < 200+g.R.IntN(100); i++ {
				op.Points = append(op.Points, model.Point{Id: g.NewId(), Doc: g.Doc()})
			}
		case style == "neighbourhoods" && step%3 == 2 && len(m.Docs) > 10:
			op = neighbourhoodOp(g, s, m, schema, vp, sv)
		case step%5 == 4 && len(m.Docs) > 3:
			// remove and re-add the vector inside one update batch
			op = gen.Op{Kind: gen.OpUpdate, Tag: "remove-and-readd-vector"}
			ids := m.SortedIds()
			for i := 0; i < min(6, len(ids)); i++ {
				id := ids[g.R.IntN(len(ids))]
				rm := model.Doc{strings.Split(vp, ".")[0]: model.DeleteValue}
				op.Points = append(op.Points, model.Point{Id: id, Doc: rm})
				op.Points = append(op.Points, model.Point{Id: id, Doc: vecDoc(g.Vector(vc.Dim, vc.Metric))})
			}
		default:
			op = h.Next(m)
		}
		if op.Kind != gen.OpInsert && op.Size() > 0 {
			mutated = true
		}
		if insertOnly && g.R.IntN(2) == 0 {
			cm.Release(path + "/" + indexBucket(vp, sv))
			res.Stat("batches_started_on_a_released_cache", 1)
		}
		mBefore := m.Clone()
		ok, out := applyOp(res, prop, s, m, op, step)
		if !ok {
			return res
		}
		h.Applied(op, out.Deleted)
		res.Stat("batches", 1)
		if !out.Succeeded {
			continue
		}
		dump, err := sx.DumpStore(s.Shard.VerifDiskStore(), schema)
		if err != nil {
			res.Violate("dump-error", prop+":dump", err.Error(), nil)
			return res
		}
		digest := dump.Digest()
		if prop == "C10" {
			probs, nodes, dups := graphInvariants(dump, vp, sv, m)
			res.Eval(mutated && nodes >= 20, digest)
			res.Stat("dumps", 1)
			res.Stat("duplicate_edges_seen", int64(dups))
			res.StatMax("max_nodes", int64(nodes))
			for _, p := range probs {
				res.Violate("graph-"+p.kind, "C10:"+p.kind, fmt.Sprintf("step %d (%s, config %s): %s", step, op.Tag, c.Name, p.msg), describeOp(op))
			}
			for _, p := range pointStoreInvariants(dump, m) {
				res.Violate("store-invariant", "C10:store-invariant:"+p.kind, fmt.Sprintf("step %d: %s", step, p.msg), nil)
			}
			if step == steps-1 {
				res.Sample(map[string]any{"config": c.Name, "nodes": nodes, "live": len(m.Docs), "last_op": op.Tag})
			}
		}
		o := newVecOracle(dump, vp, sv)
		tw.step(res, prop, mBefore, m, op, true, o.trained(), step)
		nVec := countWithVector(m, vp, vc.Dim)
		for qi := 0; qi < nSearch; qi++ {
			query := g.Vector(vc.Dim, vc.Metric)
			searchSize := []int{25, 30, 50, 75, 75}[g.R.IntN(5)]
			limit := 1 + g.R.IntN(searchSize)
			if g.R.IntN(3) == 0 {
				limit = []int{1, searchSize, min(75, searchSize), 10}[g.R.IntN(4)]
			}
			if limit > 75 {
				limit = 75
			}
			w := weights[g.R.IntN(len(weights))]
			var filter *models.Query
			var fset map[uuid.UUID]bool
			fdesc := ""
			switch g.R.IntN(6) {
			case 0:
				filter, fset, fdesc = genFilter(g, m, schema)
			case 1: // explicit id filters of critical sizes
				size := []int{0, 1, searchSize, searchSize + 1, len(m.Docs)}[g.R.IntN(5)]
				ids := m.SortedIds()
				g.R.Shuffle(len(ids), func(a, b int) { ids[a], ids[b] = ids[b], ids[a] })
				pick := ids[:min(size, len(ids))]
				if size == 0 || len(pick) == 0 {
					pick = []uuid.UUID{g.NewId()}
				}
				fq := idQuery(pick...)
				filter = &fq
				fset, _ = m.Select(schema, fq)
				fdesc = fmt.Sprintf("_id filter with %d members", len(fset))
			}
			req := models.SearchRequest{Query: models.Query{Property: vp, VectorVamana: &models.SearchVectorVamanaOptions{Vector: query, Operator: models.OperatorNear, SearchSize: searchSize, Limit: limit, Filter: filter, Weight: w}}, Limit: 100}
			if req.Validate() != nil || req.Query.ValidateSchema(schema) != nil {
				continue
			}
			cands, probs := o.candidates(m, query, fset)
			if prop == "C03" {
				for _, p := range probs {
					res.Violate("persisted-code", "C03:persisted-code:"+vc.Name, fmt.Sprintf("step %d: %s", step, p), nil)
				}
			}
			regime := ""
			if insertOnly && nVec <= min(vc.Degree, searchSize-1) && filter == nil {
				regime = "i"
			}
			if filter != nil && len(fset) <= searchSize {
				regime = "ii"
			}
			hits, err := s.Search(req)
			nt := (err == nil && len(hits) > 0) && (mutated || filter != nil || regime != "")
			if prop == "C03" {
				res.Eval(nt, digest, fmt.Sprint(query), searchSize, limit, fdesc, f32(w))
				res.Stat("searches", 1)
				if regime != "" {
					res.Stat("searches_in_regime_"+regime, 1)
				}
			}
			if err != nil {
				res.Violate("search-error", prop+":search-error:"+errClass(err), fmt.Sprintf("step %d config %s (%d live, %d with vector): vamana search failed: %v", step, c.Name, len(m.Docs), nVec, err), nil)
				continue
			}
			for _, p := range checkRanked(hits, cands, limit, weightOf(w), regime != "") {
				if prop == "C10" && p.kind != "not-a-candidate" {
					continue // C10 only cares that removed points never surface
				}
				res.Violate("vamana-"+p.kind, prop+":"+p.kind+":"+vc.Name+":regime"+regime, fmt.Sprintf("step %d config %s searchSize %d limit %d filter %q regime %q (%d candidates, %d live): %s", step, c.Name, searchSize, limit, fdesc, regime, len(cands), len(m.Docs), p.msg), nil)
			}
			if prop == "C03" && regime == "" && len(cands) > 0 {
				// recall is reported, never judged
				k := min(limit, len(cands))
				top := map[uuid.UUID]bool{}
				for _, cd := range cands[:k] {
					top[cd.Id] = true
				}
				found := 0
				for _, hh := range hits {
					if top[hh.Id] {
						found++
					}
				}
				res.Stat("recall_found", int64(found))
				res.Stat("recall_wanted", int64(k))
			}
			if prop == "C03" && step == steps-1 && qi == 0 {
				res.Sample(map[string]any{"config": c.Name, "live": len(m.Docs), "with_vector": nVec, "searchSize": searchSize, "limit": limit, "filter": fdesc, "regime": regime, "results": len(hits), "quantiser_trained": o.trained()})
			}
		}
	}
	return res
}

func countWithVector(m *model.Model, field string, dim int) int {
	n := 0
	for _, d := range m.Docs {
		if v, ok := model.AsVector(d, field); ok && len(v) == dim {
			n++
		}
	}
	return n
}

// neighbourhoodOp deletes a node's whole graph neighbourhood at once (read
// from the dump), which forces the pruning and "save" paths.
func neighbourhoodOp(g *gen.G, s *sx.Sx, m *model.Model, schema models.IndexSchema, vp string, sv models.IndexSchemaValue) gen.Op {
	op := gen.Op{Kind: gen.OpDelete, Tag: "delete-neighbourhood"}
	dump, err := sx.DumpStore(s.Shard.VerifDiskStore(), schema)
	if err != nil {
		return op
	}
	gv := dump.Graph(indexBucket(vp, sv))
	pv := dump.Points()
	var nodes []uint64
	for n := range gv.Edges {
		if n != 1 {
			nodes = append(nodes, n)
		}
	}
	if len(nodes) == 0 {
		return op
	}
	// deterministic pick
	var pick uint64
	best := ^uint64(0)
	salt := g.R.Uint64()
	for _, n := range nodes {
		if hv := fw.SplitMix(n ^ salt); hv < best {
			best, pick = hv, n
		}
	}
	for _, e := range gv.Edges[pick] {
		if id, ok := pv.NodeToId[e]; ok {
			op.Ids = append(op.Ids, id)
		}
	}
	// and every node that points to it
	for n, edges := range gv.Edges {
		for _, e := range edges {
			if e == pick {
				if id, ok := pv.NodeToId[n]; ok && g.R.IntN(2) == 0 {
					op.Ids = append(op.Ids, id)
				}
			}
		}
	}
	return op
}
