package props

import (
	"fmt"
	"os"
	"path/filepath"
	"regexp"
	"sort"
	"strings"

	"github.com/google/uuid"
	"github.com/semafind/semadb/models"
	"github.com/semafind/semadb/shard/cache"
	"semaverif/fw"
	"semaverif/gen"
	"semaverif/model"
	"semaverif/sx"
)

// applyOp runs one generated operation on the shard and on the model and
// compares outcome and reported ids (the C01 core, reused by every
// history-driven check so that a diverged state is never judged further).
// It returns false when shard and model disagree (the history must stop).
type opOutcome struct {
	ShardErr  error
	ModelErr  error
	Succeeded bool
	Deleted   []uuid.UUID
}

func idsString(ids []uuid.UUID) string {
	s := make([]string, len(ids))
	for i, id := range ids {
		s[i] = id.String()[:8]
	}
	sort.Strings(s)
	return strings.Join(s, ",")
}

func sameIdMultiset(a, b []uuid.UUID) bool {
	if len(a) != len(b) {
		return false
	}
	ca := map[uuid.UUID]int{}
	for _, x := range a {
		ca[x]++
	}
	for _, x := range b {
		ca[x]--
	}
	for _, n := range ca {
		if n != 0 {
			return false
		}
	}
	return true
}

func sameIdSet(a, b []uuid.UUID) bool {
	sa, sb := map[uuid.UUID]bool{}, map[uuid.UUID]bool{}
	for _, x := range a {
		sa[x] = true
	}
	for _, x := range b {
		sb[x] = true
	}
	if len(sa) != len(sb) {
		return false
	}
	for x := range sa {
		if !sb[x] {
			return false
		}
	}
	return true
}

func describeOp(op gen.Op) map[string]any {
	out := map[string]any{"kind": string(op.Kind), "tag": op.Tag, "size": op.Size()}
	if op.Kind == gen.OpDelete {
		out["ids"] = idsString(op.Ids)
	} else {
		pts := []string{}
		for i, p := range op.Points {
			if i >= 6 {
				pts = append(pts, "...")
				break
			}
			pts = append(pts, p.Id.String()[:8]+"="+model.Describe(map[string]any(p.Doc)))
		}
		out["points"] = pts
	}
	return out
}

// applyOp applies op to shard and model. m is only modified when both agree.
func applyOp(res *fw.CaseResult, propTag string, s *sx.Sx, m *model.Model, op gen.Op, step int) (ok bool, out opOutcome) {
	if os.Getenv("VERIF_TRACE") != "" {
		fmt.Fprintf(os.Stderr, "TRACE step %d %s %s:\n", step, op.Kind, op.Tag)
		for _, p := range op.Points {
			fmt.Fprintf(os.Stderr, "   %s %s\n", p.Id.String()[:8], model.Describe(map[string]any(p.Doc)))
		}
		if op.Kind == gen.OpDelete {
			fmt.Fprintf(os.Stderr, "   ids %s\n", idsString(op.Ids))
		}
	}
	next := m.Clone()
	switch op.Kind {
	case gen.OpInsert:
		out.ModelErr = next.Insert(op.Points)
		out.ShardErr = s.Insert(op.Points)
	case gen.OpUpdate:
		var mu, su []uuid.UUID
		mu, out.ModelErr = next.Update(op.Points, s.Col.UserPlan.MaxPointSize)
		su, out.ShardErr = s.Update(op.Points)
		if out.ModelErr == nil && out.ShardErr == nil {
			dup := false
			seen := map[uuid.UUID]bool{}
			for _, p := range op.Points {
				if seen[p.Id] {
					dup = true
				}
				seen[p.Id] = true
			}
			same := sameIdMultiset(mu, su)
			if dup {
				same = sameIdSet(mu, su)
				res.Stat("update_batches_with_repeated_id", 1)
			}
			if !same {
				res.Violate("reported-ids", propTag+":updated-ids", fmt.Sprintf("step %d update: shard reported updated ids {%s}, requested ids that existed are {%s}", step, idsString(su), idsString(mu)), describeOp(op))
				return false, out
			}
		}
	case gen.OpDelete:
		md := next.Delete(op.Ids)
		var sd []uuid.UUID
		sd, out.ShardErr = s.Delete(op.Ids)
		out.Deleted = md
		if out.ShardErr == nil && !sameIdSet(md, sd) || out.ShardErr == nil && len(sd) != len(dedupIds(md)) {
			res.Violate("reported-ids", propTag+":deleted-ids", fmt.Sprintf("step %d delete: shard reported deleted ids {%s}, requested ids that existed are {%s}", step, idsString(sd), idsString(md)), describeOp(op))
			return false, out
		}
	}
	if (out.ModelErr == nil) != (out.ShardErr == nil) {
		res.Violate("outcome", propTag+":outcome:"+string(op.Kind)+":"+errClass(out.ShardErr), fmt.Sprintf("step %d %s (%s, %d items): model says %v, shard says %v", step, op.Kind, op.Tag, op.Size(), errStr(out.ModelErr), errStr(out.ShardErr)), describeOp(op))
		return false, out
	}
	if out.ModelErr == nil {
		*m = *next
		out.Succeeded = true
	} else {
		out.Deleted = nil
		res.Stat("rejected_batches", 1)
	}
	return true, out
}

func dedupIds(ids []uuid.UUID) []uuid.UUID {
	seen := map[uuid.UUID]bool{}
	out := []uuid.UUID{}
	for _, id := range ids {
		if !seen[id] {
			seen[id] = true
			out = append(out, id)
		}
	}
	return out
}

func errStr(err error) string {
	if err == nil {
		return "success"
	}
	return "error: " + err.Error()
}

// errClass strips ids and numbers from an error text so it can be part of a
// stable signature.
func errClass(err error) string {
	if err == nil {
		return "success"
	}
	s := uuidRe.ReplaceAllString(err.Error(), "<uuid>")
	s = digitsRe.ReplaceAllString(s, "N")
	if len(s) > 160 {
		s = s[:160]
	}
	return s
}

var uuidRe = regexp.MustCompile(`[0-9a-fA-F]{8}-[0-9a-fA-F]{4}-[0-9a-fA-F]{4}-[0-9a-fA-F]{4}-[0-9a-fA-F]{12}`)
var digitsRe = regexp.MustCompile(`\d+`)

// checkStore compares the stored state with the model: point count, reads by
// id (live, deleted, unknown) and the raw points/internal buckets.
func checkStore(res *fw.CaseResult, propTag string, s *sx.Sx, m *model.Model, probeDead []uuid.UUID, step int, withDump bool) bool {
	ok := true
	cnt, err := s.PointCount()
	if err != nil {
		res.Violate("info-error", propTag+":info", fmt.Sprintf("step %d: Info failed: %v", step, err), nil)
		return false
	}
	if int(cnt) != len(m.Docs) {
		res.Violate("point-count", propTag+":point-count", fmt.Sprintf("step %d: reported point count %d, model has %d points", step, cnt, len(m.Docs)), nil)
		ok = false
	}
	ids := m.SortedIds()
	ask := append(append([]uuid.UUID{}, ids...), probeDead...)
	docs, err := s.GetDocs(ask)
	if err != nil {
		res.Violate("read-error", propTag+":read:"+errClass(err), fmt.Sprintf("step %d: reading %d ids failed: %v", step, len(ask), err), nil)
		return false
	}
	for _, id := range ids {
		got, found := docs[id]
		if !found {
			res.Violate("missing-point", propTag+":missing", fmt.Sprintf("step %d: live point %s is not returned by an _id read", step, id), nil)
			ok = false
			continue
		}
		if !model.Equal(map[string]any(got), map[string]any(m.Docs[id])) {
			res.Violate("document-mismatch", propTag+":document", fmt.Sprintf("step %d: point %s reads as %s, model document is %s", step, id, model.Describe(map[string]any(got)), model.Describe(map[string]any(m.Docs[id]))), nil)
			ok = false
		}
	}
	for id := range docs {
		if _, live := m.Docs[id]; !live {
			res.Violate("phantom-point", propTag+":phantom", fmt.Sprintf("step %d: _id read returned %s which is not stored (deleted or never inserted)", step, id), nil)
			ok = false
		}
	}
	if withDump {
		d, err := sx.DumpStore(s.Shard.VerifDiskStore(), s.Col.IndexSchema)
		if err != nil {
			res.Violate("dump-error", propTag+":dump", err.Error(), nil)
			return false
		}
		for _, p := range pointStoreInvariants(d, m) {
			res.Violate("store-invariant", propTag+":store-invariant:"+p.kind, fmt.Sprintf("step %d: %s", step, p.msg), nil)
			ok = false
		}
	}
	return ok
}

type problem struct{ kind, msg string }

// pointStoreInvariants checks the bijection / conservation invariants of the
// points and internal buckets against the model's live set.
func pointStoreInvariants(d *sx.Dump, m *model.Model) []problem {
	var out []problem
	add := func(kind, format string, a ...any) {
		if len(out) < 12 {
			out = append(out, problem{kind, fmt.Sprintf(format, a...)})
		}
	}
	pv := d.Points()
	for _, p := range pv.Problems {
		add("malformed", "%s", p)
	}
	iv := d.Internal()
	if len(pv.IdToNode) != len(m.Docs) {
		add("id-set", "points bucket has %d uuid keys, model has %d live points", len(pv.IdToNode), len(m.Docs))
	}
	for u, n := range pv.IdToNode {
		if _, live := m.Docs[u]; !live {
			add("id-set", "uuid %s has a key in the points bucket but is not live", u)
		}
		back, ok := pv.NodeToId[n]
		if !ok || back != u {
			add("bijection", "uuid %s maps to node %d but node %d maps back to %v (present=%v)", u, n, n, back, ok)
		}
		if n < 2 {
			add("node-range", "uuid %s uses reserved node id %d", u, n)
		}
	}
	for n, u := range pv.NodeToId {
		if fwd, ok := pv.IdToNode[u]; !ok || fwd != n {
			add("bijection", "node %d maps to uuid %s but that uuid maps to node %d (present=%v)", n, u, fwd, ok)
		}
	}
	for n, data := range pv.NodeToData {
		u, ok := pv.NodeToId[n]
		if !ok {
			add("orphan-data", "node %d has data (%d bytes) but no uuid", n, len(data))
			continue
		}
		if doc, live := m.Docs[u]; live {
			dec, err := model.Decode(data)
			if err != nil {
				add("data", "stored data of %s does not decode: %v", u, err)
			} else if !model.Equal(map[string]any(dec), map[string]any(doc)) {
				add("data", "raw stored data of %s differs from the model document", u)
			}
		}
	}
	for u, n := range pv.IdToNode {
		if _, has := pv.NodeToData[n]; !has {
			if doc, live := m.Docs[u]; live {
				// a document is always at least the one-byte empty map
				_ = doc
				add("data", "live point %s (node %d) has no data key", u, n)
			}
		}
	}
	if iv.HasPointCount && int(iv.PointCount) != len(pv.IdToNode) {
		add("count", "pointCount key says %d, bucket holds %d points", iv.PointCount, len(pv.IdToNode))
	}
	if !iv.HasPointCount && len(pv.IdToNode) > 0 {
		add("count", "no pointCount key although %d points are stored", len(pv.IdToNode))
	}
	// allocator: live and free are disjoint, free list has no duplicates and
	// stays below nextFree, and live + free = nextFree - 2 (conservation)
	free := map[uint64]bool{}
	for _, f := range iv.FreeIds {
		if free[f] {
			add("allocator", "node id %d is on the free list twice", f)
		}
		free[f] = true
		if f >= iv.NextFree || f < 2 {
			add("allocator", "free node id %d is outside [2, nextFree=%d)", f, iv.NextFree)
		}
		if _, live := pv.NodeToId[f]; live {
			add("allocator", "node id %d is both live and on the free list", f)
		}
	}
	for n := range pv.NodeToId {
		if n >= iv.NextFree {
			add("allocator", "live node id %d is not below nextFree=%d", n, iv.NextFree)
		}
	}
	if (len(pv.NodeToId) > 0 || iv.HasNextFree) && uint64(len(pv.NodeToId)+len(free)) != iv.NextFree-2 {
		add("allocator", "conservation: %d live + %d free != nextFree(%d) - 2", len(pv.NodeToId), len(free), iv.NextFree)
	}
	return out
}

func newCacheManager(kind string) *cache.Manager {
	switch kind {
	case "none":
		return nil
	case "zero":
		return cache.NewManager(0)
	case "tiny":
		return cache.NewManager(600)
	default:
		return cache.NewManager(-1)
	}
}

func shardPath(env *fw.Env, name string) string {
	return filepath.Join(env.Dir, name+".bbolt")
}

func idQuery(ids ...uuid.UUID) models.Query {
	strs := make([]string, len(ids))
	for i, id := range ids {
		strs[i] = id.String()
	}
	if len(strs) == 1 {
		return models.Query{Property: "_id", String: &models.SearchStringOptions{Value: strs[0], Operator: models.OperatorEquals}}
	}
	return models.Query{Property: "_id", StringArray: &models.SearchStringArrayOptions{Value: strs, Operator: models.OperatorContainsAny}}
}
