package props

import (
	"fmt"
	"math"
	"sort"
	"strings"
	"time"
	"unicode/utf8"

	"github.com/google/uuid"
	"github.com/semafind/semadb/models"
	"semaverif/fw"
	"semaverif/gen"
	"semaverif/model"
	"semaverif/sx"
)

// C02: filter queries return exactly the live points that satisfy the predicate.
type c02 struct{}

func init() { fw.Register(c02{}) }

func (c02) ID() string    { return "C02" }
func (c02) Level() string { return "exploration" }
func (c02) Rule() string {
	return "unit = (stored state, filter query): histories of 20 batches on string (case-sensitive and not), string-array, integer, float indexes incl. nested property paths, on the bbolt and the in-memory back end; after every third batch a sweep of every operator x {each distinct stored value, its neighbours in the type's order, case variants / prefixes, pool extremes: min/max int64, -0.0, subnormals, non-ASCII} plus _id lookups (live, deleted, unknown) and random _and/_or trees of depth <= 3; every query passes Validate() and ValidateSchema(); the returned id set (paged with offset/limit) must equal {live p : predicate(p.field)} from the model. Non-trivial = expected set neither empty nor all points, or the query value is a pool boundary; distinct by hash of (sorted live values digest, query)."
}
func (c02) Assumptions() []string {
	return []string{"inRange is the closed interval [value, endValue]", "case-insensitive indexes fold stored value, value and endValue with strings.ToLower", "floats compare by IEEE order (-0.0 == 0.0); NaN is not generated", "a stored empty array never matches"}
}
func (c02) Floor(tier string) int {
	if tier == "thorough" {
		return 100000
	}
	return 5000
}
func (c02) Timeout(string) time.Duration { return 20 * time.Minute }
func (c02) Parallel(string) int          { return 16 }

func (c02) Cases(tier string, seed uint64) []fw.Case {
	n := 32
	if tier == "thorough" {
		n = 320
	}
	cs := make([]fw.Case, n)
	for i := range cs {
		backend := "bbolt"
		if i%4 == 3 {
			backend = "memory"
		}
		cs[i] = fw.Case{Seed: fw.CaseSeed(seed, "C02", i), Name: fmt.Sprintf("history%d-%s", i, backend), Params: map[string]any{"backend": backend, "steps": 20, "emptystr": i%8 == 5 || i%8 == 7}}
	}
	return cs
}

// runFilter executes a filter-only query and pages through the complete answer.
func runFilter(s *sx.Sx, q models.Query) (map[uuid.UUID]int, error) {
	out := map[uuid.UUID]int{}
	for off := 0; ; off += 100 {
		req := models.SearchRequest{Query: q, Limit: 100, Offset: off}
		if err := req.Validate(); err != nil {
			return nil, fmt.Errorf("harness generated an invalid request: %w", err)
		}
		hits, err := s.Search(req)
		if err != nil {
			return nil, err
		}
		for _, h := range hits {
			out[h.Id]++
		}
		if len(hits) < 100 {
			return out, nil
		}
	}
}

type qcase struct {
	q        models.Query
	boundary bool
	desc     string
}

func strQ(prop, op, v, end string) models.Query {
	return models.Query{Property: prop, String: &models.SearchStringOptions{Value: v, Operator: op, EndValue: end}}
}
func intQ(prop, op string, v, end int64) models.Query {
	return models.Query{Property: prop, Integer: &models.SearchIntegerOptions{Value: v, Operator: op, EndValue: end}}
}
func floatQ(prop, op string, v, end float64) models.Query {
	return models.Query{Property: prop, Float: &models.SearchFloatOptions{Value: v, Operator: op, EndValue: end}}
}
func arrQ(prop, op string, v []string) models.Query {
	return models.Query{Property: prop, StringArray: &models.SearchStringArrayOptions{Value: v, Operator: op}}
}

var cmpOps = []string{models.OperatorEquals, models.OperatorNotEquals, models.OperatorGreaterThan, models.OperatorGreaterOrEq, models.OperatorLessThan, models.OperatorLessOrEq}

func caseVariants(s string) []string {
	out := []string{s, strings.ToUpper(s), strings.ToLower(s)}
	if len(s) > 0 {
		out = append(out, strings.ToUpper(s[:1])+s[1:])
	}
	return out
}

// leafQueries builds the operator x value sweep for one property.
func leafQueries(g *gen.G, m *model.Model, prop string, sv models.IndexSchemaValue) []qcase {
	var out []qcase
	add := func(q models.Query, boundary bool) {
		if q.Validate() != nil {
			return
		}
		out = append(out, qcase{q: q, boundary: boundary})
	}
	switch sv.Type {
	case models.IndexTypeInteger:
		vals := map[int64]bool{}
		for _, d := range m.Docs {
			if v, ok := model.Lookup(d, prop); ok {
				if n, ok := model.AsInt(v); ok {
					vals[n] = true
				}
			}
		}
		pool := map[int64]bool{}
		for v := range vals {
			pool[v] = false
			if v > math.MinInt64 {
				pool[v-1] = false
			}
			if v < math.MaxInt64 {
				pool[v+1] = false
			}
		}
		for _, v := range gen.IntPool {
			pool[v] = true
		}
		keys := make([]int64, 0, len(pool))
		for v := range pool {
			keys = append(keys, v)
		}
		sort.Slice(keys, func(i, j int) bool { return keys[i] < keys[j] })
		for _, v := range keys {
			for _, op := range cmpOps {
				add(intQ(prop, op, v, 0), pool[v])
			}
		}
		for i := 0; i < 40 && len(keys) >= 2; i++ {
			a, b := keys[g.R.IntN(len(keys))], keys[g.R.IntN(len(keys))]
			if a > b {
				a, b = b, a
			}
			add(intQ(prop, models.OperatorInRange, a, b), pool[a] || pool[b])
		}
	case models.IndexTypeFloat:
		pool := map[float64]bool{}
		for _, d := range m.Docs {
			if v, ok := model.Lookup(d, prop); ok {
				if f, ok := model.AsFloat(v); ok {
					pool[f] = false
					pool[math.Nextafter(f, math.Inf(1))] = false
					pool[math.Nextafter(f, math.Inf(-1))] = false
				}
			}
		}
		for _, v := range gen.FloatPool {
			pool[v] = true
		}
		keys := make([]float64, 0, len(pool)+1)
		for v := range pool {
			if !math.IsInf(v, 0) {
				keys = append(keys, v)
			}
		}
		keys = append(keys, math.Copysign(0, -1))
		sort.Float64s(keys)
		for _, v := range keys {
			for _, op := range cmpOps {
				add(floatQ(prop, op, v, 0), pool[v] || v == 0)
			}
		}
		for i := 0; i < 40 && len(keys) >= 2; i++ {
			a, b := keys[g.R.IntN(len(keys))], keys[g.R.IntN(len(keys))]
			if a > b {
				a, b = b, a
			}
			add(floatQ(prop, models.OperatorInRange, a, b), pool[a] || pool[b] || a == 0 || b == 0)
		}
	case models.IndexTypeString:
		set := map[string]bool{}
		for _, d := range m.Docs {
			if v, ok := model.Lookup(d, prop); ok {
				if s, ok := v.(string); ok {
					for _, cv := range caseVariants(s) {
						set[cv] = true
					}
					for i := 1; i < len(s) && i <= 3; i++ {
						if utf8.ValidString(s[:i]) {
							set[s[:i]] = true
						}
					}
					set[s+"a"] = true
					set[s+"\x00"] = true
				}
			}
		}
		for _, s := range gen.StringPool {
			set[s] = true
		}
		keys := make([]string, 0, len(set))
		for s := range set {
			keys = append(keys, s)
		}
		sort.Strings(keys)
		ops := append(append([]string{}, cmpOps...), models.OperatorStartsWith)
		for _, v := range keys {
			nonASCII := false
			for _, r := range v {
				if r > 127 {
					nonASCII = true
				}
			}
			for _, op := range ops {
				add(strQ(prop, op, v, ""), nonASCII || v != strings.ToLower(v))
			}
		}
		for i := 0; i < 80 && len(keys) >= 2; i++ {
			a, b := keys[g.R.IntN(len(keys))], keys[g.R.IntN(len(keys))]
			add(strQ(prop, models.OperatorInRange, a, b), a != strings.ToLower(a) || b != strings.ToLower(b))
			add(strQ(prop, models.OperatorInRange, b, a), a != strings.ToLower(a) || b != strings.ToLower(b))
		}
	case models.IndexTypeStringArray:
		set := map[string]bool{}
		for _, d := range m.Docs {
			if v, ok := model.Lookup(d, prop); ok {
				if arr, ok := model.AsStrings(v); ok {
					for _, s := range arr {
						for _, cv := range caseVariants(s) {
							set[cv] = true
						}
					}
				}
			}
		}
		for _, s := range gen.TagPool {
			set[s] = true
		}
		set["nope"] = true
		keys := make([]string, 0, len(set))
		for s := range set {
			keys = append(keys, s)
		}
		sort.Strings(keys)
		for _, op := range []string{models.OperatorContainsAll, models.OperatorContainsAny} {
			for _, k := range keys {
				add(arrQ(prop, op, []string{k}), k != strings.ToLower(k))
			}
			for i := 0; i < 60; i++ {
				n := 2 + g.R.IntN(3)
				v := make([]string, n)
				for j := range v {
					v[j] = keys[g.R.IntN(len(keys))]
				}
				if g.R.IntN(5) == 0 {
					v[1] = v[0] // repeated query value
				}
				add(arrQ(prop, op, v), false)
			}
		}
	}
	return out
}

func queryString(q models.Query) string {
	switch {
	case q.Property == "_and":
		parts := make([]string, len(q.And))
		for i, s := range q.And {
			parts[i] = queryString(s)
		}
		return "and(" + strings.Join(parts, ", ") + ")"
	case q.Property == "_or":
		parts := make([]string, len(q.Or))
		for i, s := range q.Or {
			parts[i] = queryString(s)
		}
		return "or(" + strings.Join(parts, ", ") + ")"
	case q.String != nil:
		return fmt.Sprintf("%s %s %q..%q", q.Property, q.String.Operator, q.String.Value, q.String.EndValue)
	case q.Integer != nil:
		return fmt.Sprintf("%s %s %d..%d", q.Property, q.Integer.Operator, q.Integer.Value, q.Integer.EndValue)
	case q.Float != nil:
		return fmt.Sprintf("%s %s %s..%s", q.Property, q.Float.Operator, describeVal(q.Float.Value), describeVal(q.Float.EndValue))
	case q.StringArray != nil:
		return fmt.Sprintf("%s %s %q", q.Property, q.StringArray.Operator, q.StringArray.Value)
	case q.VectorFlat != nil:
		return fmt.Sprintf("%s flat near limit=%d filter=%v", q.Property, q.VectorFlat.Limit, q.VectorFlat.Filter != nil)
	case q.VectorVamana != nil:
		return fmt.Sprintf("%s vamana near limit=%d ss=%d filter=%v", q.Property, q.VectorVamana.Limit, q.VectorVamana.SearchSize, q.VectorVamana.Filter != nil)
	case q.Text != nil:
		return fmt.Sprintf("%s text %s %q limit=%d filter=%v", q.Property, q.Text.Operator, q.Text.Value, q.Text.Limit, q.Text.Filter != nil)
	}
	return q.Property
}

// randomTree builds an _and/_or tree over filter leaves.
func randomTree(g *gen.G, leaves []qcase, depth int) models.Query {
	if depth == 0 || g.R.IntN(3) == 0 {
		return leaves[g.R.IntN(len(leaves))].q
	}
	n := 1 + g.R.IntN(3)
	subs := make([]models.Query, n)
	for i := range subs {
		subs[i] = randomTree(g, leaves, depth-1)
	}
	if g.R.IntN(2) == 0 {
		return models.Query{Property: "_and", And: subs}
	}
	return models.Query{Property: "_or", Or: subs}
}

func stateDigest(m *model.Model, props []string) uint64 {
	ids := m.SortedIds()
	parts := make([]any, 0, len(ids)*2)
	for _, id := range ids {
		parts = append(parts, id.String())
		for _, p := range props {
			v, ok := model.Lookup(m.Docs[id], p)
			if ok {
				parts = append(parts, p+"="+model.Describe(v))
			}
		}
	}
	return fw.Hash64(parts...)
}

func sortedKeys(m map[uuid.UUID]bool) []string {
	out := make([]string, 0, len(m))
	for id := range m {
		out = append(out, id.String()[:8])
	}
	sort.Strings(out)
	return out
}

// checkFilter runs q and compares with the model. Returns false on mismatch.
func checkFilter(res *fw.CaseResult, tag string, s *sx.Sx, m *model.Model, schema models.IndexSchema, q models.Query, boundary bool, digest uint64, step int) bool {
	want, ok := m.Select(schema, q)
	if !ok {
		return true
	}
	if err := q.ValidateSchema(schema); err != nil {
		return true
	}
	got, err := runFilter(s, q)
	qs := queryString(q)
	nt := boundary || (len(want) > 0 && len(want) < len(m.Docs))
	res.Eval(nt, digest, qs)
	if err != nil {
		res.Violate("filter-error", tag+":filter-error:"+errClass(err), fmt.Sprintf("step %d: query %s failed: %v", step, qs, err), nil)
		return false
	}
	bad := false
	var extra, missing, dups []string
	for id, n := range got {
		if !want[id] {
			extra = append(extra, id.String()[:8]+"="+fieldsOf(m, id, q))
			bad = true
		}
		if n > 1 {
			dups = append(dups, id.String()[:8])
			bad = true
		}
	}
	for id := range want {
		if got[id] == 0 {
			missing = append(missing, id.String()[:8]+"="+fieldsOf(m, id, q))
			bad = true
		}
	}
	if bad {
		sort.Strings(extra)
		sort.Strings(missing)
		res.Violate("filter-mismatch", tag+":filter-mismatch:"+querySig(q), fmt.Sprintf("step %d: query %s returned %d points, predicate selects %d of %d live; unexpected=%v missing=%v duplicated=%v", step, qs, len(got), len(want), len(m.Docs), trunc(extra, 8), trunc(missing, 8), dups), nil)
		return false
	}
	return true
}

func trunc(s []string, n int) []string {
	if len(s) > n {
		return append(s[:n:n], "...")
	}
	return s
}

func fieldsOf(m *model.Model, id uuid.UUID, q models.Query) string {
	d, ok := m.Docs[id]
	if !ok {
		return "<not live>"
	}
	props := map[string]bool{}
	var walk func(q models.Query)
	walk = func(q models.Query) {
		for _, s := range q.And {
			walk(s)
		}
		for _, s := range q.Or {
			walk(s)
		}
		if q.Property != "_and" && q.Property != "_or" && q.Property != "_id" {
			props[q.Property] = true
		}
	}
	walk(q)
	parts := []string{}
	for p := range props {
		v, ok := model.Lookup(d, p)
		if ok {
			parts = append(parts, model.Describe(v))
		} else {
			parts = append(parts, "<absent>")
		}
	}
	sort.Strings(parts)
	return strings.Join(parts, "|")
}

// querySig classifies a query for signatures: index type + operator + value class.
func querySig(q models.Query) string {
	switch {
	case q.Property == "_and" || q.Property == "_or":
		return q.Property
	case q.Property == "_id":
		return "_id"
	case q.String != nil:
		c := "plain"
		if q.String.Value != strings.ToLower(q.String.Value) || q.String.EndValue != strings.ToLower(q.String.EndValue) {
			c = "uppercase"
		}
		return "string:" + q.String.Operator + ":" + c
	case q.Integer != nil:
		return "integer:" + q.Integer.Operator
	case q.Float != nil:
		c := "plain"
		if q.Float.Value == 0 {
			c = "zero"
		}
		return "float:" + q.Float.Operator + ":" + c
	case q.StringArray != nil:
		return "stringArray:" + q.StringArray.Operator
	}
	return "other"
}

func (c02) RunCase(c fw.Case, env *fw.Env) *fw.CaseResult {
	res := fw.NewResult()
	schema := gen.FilterSchema()
	g := gen.New(c.Seed, schema)
	g.AllowEmptyStr = c.Bool("emptystr", false)
	g.PresentProb = 0.75
	path := shardPath(env, "c02")
	if c.Str("backend", "bbolt") == "memory" {
		path = ""
	}
	s, err := sx.Open(path, schema, newCacheManager("unlimited"), 0)
	if err != nil {
		res.Note("open: %v", err)
		res.Inconclusive++
		return res
	}
	defer s.Close()
	m := model.New()
	h := gen.NewHistory(g)
	h.MaxBatch = 25
	h.WUpdate = 5
	if path == "" {
		// the in-memory back end has no rollback; the properties only speak of
		// histories of successful batches there
		h.RejectProb = 0
	}
	props := g.SortedProps()
	steps := c.Int("steps", 20)
	var recentDead []uuid.UUID
	for step := 0; step < steps; step++ {
		op := h.Next(m)
		ok, out := applyOp(res, "C02", s, m, op, step)
		if !ok {
			if out.ShardErr != nil && out.ModelErr == nil && strings.Contains(out.ShardErr.Error(), "key required") {
				// reported above (known finding); the batch was rolled back, so
				// the state still equals the model and the history can go on
				res.Stat("batches_refused_for_empty_key", 1)
				continue
			}
			return res
		}
		h.Applied(op, out.Deleted)
		recentDead = append(recentDead, out.Deleted...)
		res.Stat("batches", 1)
		if step%3 != 2 && step != steps-1 {
			continue
		}
		res.Stat("sweeps", 1)
		digest := stateDigest(m, props)
		var leaves []qcase
		for _, p := range props {
			leaves = append(leaves, leafQueries(g, m, p, schema[p])...)
		}
		// _id lookups: live, deleted, unknown, mixed
		live := m.SortedIds()
		for i := 0; i < 6; i++ {
			var ids []uuid.UUID
			for j := 0; j < 1+g.R.IntN(5); j++ {
				switch {
				case g.R.IntN(3) == 0 && len(recentDead) > 0:
					ids = append(ids, recentDead[g.R.IntN(len(recentDead))])
				case g.R.IntN(4) == 0:
					ids = append(ids, g.NewId())
				case len(live) > 0:
					ids = append(ids, live[g.R.IntN(len(live))])
				}
			}
			if len(ids) > 0 {
				leaves = append(leaves, qcase{q: idQuery(ids...), boundary: true})
			}
		}
		bad := 0
		for _, lq := range leaves {
			if !checkFilter(res, "C02", s, m, schema, lq.q, lq.boundary, digest, step) {
				bad++
				if bad > 6 {
					break
				}
			}
		}
		res.Stat("leaf_queries", int64(len(leaves)))
		if bad == 0 && len(leaves) > 0 {
			for i := 0; i < 40; i++ {
				q := randomTree(g, leaves, 3)
				if q.Validate() != nil {
					continue
				}
				res.Stat("tree_queries", 1)
				checkFilter(res, "C02", s, m, schema, q, false, digest, step)
			}
		}
		if step == steps-1 && c.Idx == 0 && len(leaves) > 3 {
			res.Sample(map[string]any{"backend": c.Str("backend", ""), "live_points": len(m.Docs), "queries_in_last_sweep": len(leaves), "examples": []string{queryString(leaves[0].q), queryString(leaves[len(leaves)/2].q), queryString(randomTree(g, leaves, 3))}})
		}
	}
	return res
}
