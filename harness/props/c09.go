package props

import (
	"fmt"
	"math/rand/v2"
	"os"
	"runtime"
	"sort"
	"strings"
	"sync"
	"sync/atomic"
	"time"

	"github.com/anishathalye/porcupine"
	"github.com/google/uuid"
	"github.com/semafind/semadb/diskstore"
	"github.com/semafind/semadb/models"
	"github.com/semafind/semadb/shard/cache"
	"semaverif/fw"
	"semaverif/gen"
	"semaverif/model"
	"semaverif/proxy"
	"semaverif/sx"
)

// C09: concurrent searches and writes are safe and every search sees committed data.
type c09 struct{}

func init() { fw.Register(c09{}) }

func (c09) ID() string    { return "C09" }
func (c09) Level() string { return "exploration" }
func (c09) Rule() string {
	return "unit = per-point sub-history of one run: N in {2,8,16} searcher goroutines (vamana / flat / text / filter / _id / composite requests with and without pre-filters; select none, [ver], [*]; eager consumers decode at once, lazy consumers hold the returned results for two further commits before decoding) run against one writer that streams insert/update/delete batches on a file-backed shard with a shared cache, started cold, partially warm or warm; the whole run is under the Go race detector (checkptr included), one child process per run. Every written document carries a unique version, so a read identifies its write: the history {write(ver)/delete with the batch's call/return interval for successful batches; read->ver for every point any search returned, with the search's interval} is checked per point with porcupine against a register model (a read is legal iff it returns the current version; absence is never recorded). Also refuted by: process death, any race report, any search error, final state != sequential application of the successful batches, warm != cold answers afterwards. Forced interleavings through storage-proxy pauses: search snapshot taken before a commit and continued after it; search issued between storage commit and cache commit. Non-trivial sub-history = at least one write overlaps at least one read in time; distinct by (point id, operation sequence hash)."
}
func (c09) Assumptions() []string {
	return []string{"one writer goroutine issues the batch stream (bbolt serialises writers anyway), so commit order = issue order", "only schedules the Go scheduler and the proxy pause points produce are observed; their count is reported", "a search that selected no fields carries no document: the read is 'some version' and is legal iff the point is not deleted"}
}
func (c09) Floor(tier string) int {
	if tier == "thorough" {
		return 5000
	}
	return 500
}
func (c09) Timeout(tier string) time.Duration {
	if tier == "thorough" {
		return 40 * time.Minute
	}
	return 12 * time.Minute
}
func (c09) Parallel(string) int { return 6 }

func (c09) Cases(tier string, seed uint64) []fw.Case {
	type ph struct {
		name      string
		searchers int
		start     string
		lazy      bool
		prefill   int
	}
	phases := []ph{
		{"single-searcher", 2, "warm", false, 150},
		{"many-warm", 8, "warm", false, 300},
		{"many-partially-warm", 8, "partial", false, 600},
		{"many-cold", 16, "cold", false, 2500},
		{"lazy-consumers", 8, "warm", true, 300},
		// a size-limited shared cache: whole index caches are evicted while searches and the writer
		// use them (also the cache the writer itself holds), and are rebuilt by whoever comes next
		{"many-warm-small-cache", 8, "warm", false, 300},
		// two clients writing at the same time (disjoint points): batches queue for the storage write
		// lock while the cache transaction of the earlier one is still to be committed
		{"two-writers-small-cache", 6, "warm", false, 300},
		{"two-writers", 6, "partial", false, 400},
		{"forced-interleavings", 1, "warm", false, 200},
	}
	batches := 40
	reps := 1
	if tier == "thorough" {
		batches = 200
		reps = 5
	}
	var cs []fw.Case
	i := 0
	for r := 0; r < reps; r++ {
		for _, p := range phases {
			pre := p.prefill
			if tier == "thorough" && p.start == "cold" {
				pre = 6000
			}
			cs = append(cs, fw.Case{Seed: fw.CaseSeed(seed, "C09", i), Name: p.name, Params: map[string]any{"phase": p.name, "searchers": p.searchers, "start": p.start, "lazy": p.lazy, "prefill": pre, "batches": batches, "writers": map[bool]int{true: 2, false: 1}[strings.HasPrefix(p.name, "two-writers")]}})
			i++
			// the same phase on the build without the race detector: about five times as many searches per
			// commit, which is what it took to see stale caches under a size limit
			if p.name == "many-warm-small-cache" || p.name == "many-partially-warm" || p.name == "many-warm" || strings.HasPrefix(p.name, "two-writers") {
				for rep := 0; rep < 3; rep++ {
					cs = append(cs, fw.Case{Seed: fw.CaseSeed(seed, "C09", i), Name: p.name + "/plain-build", Params: map[string]any{"phase": p.name, "searchers": p.searchers, "start": p.start, "lazy": p.lazy, "prefill": pre, "batches": batches, "plain_build": true, "writers": map[bool]int{true: 2, false: 1}[strings.HasPrefix(p.name, "two-writers")]}})
					i++
				}
			}
		}
	}
	return cs
}

func c09Schema() models.IndexSchema {
	return models.IndexSchema{
		"vec":  gen.Vamana(6, models.DistanceEuclidean, 50, 32, 1.2, nil),
		"flat": gen.Flat(4, models.DistanceEuclidean, nil),
		"txt":  gen.Text(),
		"n":    gen.Int(),
		"tags": gen.StrArr(false),
	}
}

// ---- history events

type c09Op struct {
	kind string // write | delete | read
	key  string
	ver  string
}

type c09Event struct {
	client int
	in     c09Op
	out    string
	call   int64
	ret    int64
}

var c09Model = porcupine.Model{
	Partition: func(history []porcupine.Operation) [][]porcupine.Operation {
		byKey := map[string][]porcupine.Operation{}
		for _, op := range history {
			k := op.Input.(c09Op).key
			byKey[k] = append(byKey[k], op)
		}
		keys := make([]string, 0, len(byKey))
		for k := range byKey {
			keys = append(keys, k)
		}
		sort.Strings(keys)
		out := make([][]porcupine.Operation, 0, len(keys))
		for _, k := range keys {
			out = append(out, byKey[k])
		}
		return out
	},
	Init: func() any { return "" },
	Step: func(state, input, output any) (bool, any) {
		st := state.(string)
		in := input.(c09Op)
		switch in.kind {
		case "write":
			return true, in.ver
		case "delete":
			return true, ""
		default:
			got := output.(string)
			if got == "*some*" {
				return st != "", st
			}
			return st != "" && got == st, st
		}
	},
	Equal: func(a, b any) bool { return a.(string) == b.(string) },
	DescribeOperation: func(input, output any) string {
		in := input.(c09Op)
		if in.kind == "read" {
			return fmt.Sprintf("read(%s) -> %v", in.key[:8], output)
		}
		return fmt.Sprintf("%s(%s, %s)", in.kind, in.key[:8], in.ver)
	},
}

type c09run struct {
	res     *fw.CaseResult
	s       *sx.Sx
	schema  models.IndexSchema
	start   time.Time
	mu      sync.Mutex
	events  []c09Event
	commits atomic.Int64
	errs    atomic.Int64
}

func (r *c09run) now() int64 { return time.Since(r.start).Nanoseconds() }

func (r *c09run) record(evs ...c09Event) {
	r.mu.Lock()
	r.events = append(r.events, evs...)
	r.mu.Unlock()
}

func verOf(d model.Doc) (string, bool) {
	if d == nil {
		return "", false
	}
	v, ok := d["ver"].(string)
	return v, ok
}

// searcher issues random requests until stop is closed.
func (r *c09run) searcher(id int, seed uint64, lazy bool, stop <-chan struct{}, wg *sync.WaitGroup, live func(rng *rand.Rand) []uuid.UUID) {
	defer wg.Done()
	g := gen.New(seed, r.schema)
	g.NoLattice = true
	type held struct {
		call, ret int64
		hits      []models.SearchResult
		sel       string
		atCommit  int64
	}
	var holding []held
	decode := func(h held) {
		hits := sx.DecodeResults(h.hits)
		evs := make([]c09Event, 0, len(hits))
		for _, hit := range hits {
			if hit.DecodeErr != "" {
				r.res.Violate("undecodable-document", "C09:undecodable:"+map[bool]string{true: "lazy", false: "eager"}[lazy], fmt.Sprintf("searcher %d: the document returned for %s does not decode (%s); the result was held for %d commits before decoding", id, hit.Id, hit.DecodeErr, r.commits.Load()-h.atCommit), nil)
				continue
			}
			out := "*some*"
			if h.sel != "none" {
				v, ok := verOf(hit.Doc)
				if !ok {
					r.res.Violate("document-without-version", "C09:no-version:"+h.sel, fmt.Sprintf("searcher %d: result %s carries a document without its version field: %s", id, hit.Id, model.Describe(map[string]any(hit.Doc))), nil)
					continue
				}
				out = v
			}
			evs = append(evs, c09Event{client: id, in: c09Op{kind: "read", key: hit.Id.String()}, out: out, call: h.call, ret: h.ret})
		}
		r.record(evs...)
	}
	for {
		select {
		case <-stop:
			for _, h := range holding {
				decode(h)
			}
			return
		default:
		}
		if g.R.IntN(50) == 0 {
			// a composite one of whose sub-queries cannot be answered (a property the schema does not
			// have) next to sub-queries that still walk the graph: the request may fail, the process
			// must not - the siblings still read through this request's storage transaction
			bad := models.Query{Property: "nosuch", Integer: &models.SearchIntegerOptions{Value: 1, Operator: models.OperatorEquals}}
			slow := func() models.Query {
				return models.Query{Property: "vec", VectorVamana: &models.SearchVectorVamanaOptions{Vector: g.Vector(6, models.DistanceEuclidean), Operator: models.OperatorNear, SearchSize: 75, Limit: 75}}
			}
			fq := models.Query{Property: "_or", Or: []models.Query{bad, slow(), slow()}}
			if g.R.IntN(2) == 0 {
				fq = models.Query{Property: "_and", And: []models.Query{slow(), bad, slow()}}
			}
			if _, err := r.s.Shard.SearchPoints(models.SearchRequest{Query: fq, Limit: 10}); err != nil {
				r.res.Stat("composites_with_a_failing_sub_query_answered_with_an_error", 1)
			}
			r.res.Stat("composites_with_a_failing_sub_query", 1)
			continue
		}
		var q models.Query
		var filter *models.Query
		if g.R.IntN(3) == 0 {
			f := intQ("n", models.OperatorGreaterOrEq, []int64{-2, 0, 2}[g.R.IntN(3)], 0)
			if g.R.IntN(2) == 0 {
				f = arrQ("tags", models.OperatorContainsAny, []string{gen.TagPool[g.R.IntN(len(gen.TagPool))], "red"})
			}
			filter = &f
		}
		switch g.R.IntN(10) {
		case 0, 1, 2:
			ss := []int{25, 50, 75}[g.R.IntN(3)]
			q = models.Query{Property: "vec", VectorVamana: &models.SearchVectorVamanaOptions{Vector: g.Vector(6, models.DistanceEuclidean), Operator: models.OperatorNear, SearchSize: ss, Limit: 1 + g.R.IntN(ss), Filter: filter}}
		case 3:
			q = models.Query{Property: "flat", VectorFlat: &models.SearchVectorFlatOptions{Vector: g.Vector(4, models.DistanceEuclidean), Operator: models.OperatorNear, Limit: 1 + g.R.IntN(20), Filter: filter}}
		case 4:
			q = models.Query{Property: "txt", Text: &models.SearchTextOptions{Value: textQuery(g), Operator: models.OperatorContainsAny, Limit: 1 + g.R.IntN(20), Filter: filter}}
		case 5:
			q = intQ("n", cmpOps[g.R.IntN(len(cmpOps))], gen.IntPool[g.R.IntN(len(gen.IntPool))], 0)
		case 6:
			ids := live(g.R)
			if len(ids) == 0 {
				continue
			}
			q = idQuery(ids...)
		default:
			// composites: the sub-queries of one request run in parallel inside ONE cache transaction.
			// Several leaves on the same index (same cache name) with different amounts of work are the
			// interesting case: they share or contend for one cache within the transaction.
			vam := func(ss, limit int, f *models.Query) models.Query {
				return models.Query{Property: "vec", VectorVamana: &models.SearchVectorVamanaOptions{Vector: g.Vector(6, models.DistanceEuclidean), Operator: models.OperatorNear, SearchSize: ss, Limit: limit, Filter: f}}
			}
			flat := func(limit int) models.Query {
				return models.Query{Property: "flat", VectorFlat: &models.SearchVectorFlatOptions{Vector: g.Vector(4, models.DistanceEuclidean), Operator: models.OperatorNear, Limit: limit}}
			}
			txt := func() models.Query {
				return models.Query{Property: "txt", Text: &models.SearchTextOptions{Value: textQuery(g), Operator: models.OperatorContainsAny, Limit: 10}}
			}
			switch g.R.IntN(6) {
			case 0:
				q = models.Query{Property: "_or", Or: []models.Query{vam(50, 10, filter), txt()}}
			case 1: // quick leaf + slow leaf on the same graph index
				q = models.Query{Property: "_or", Or: []models.Query{vam(25, 3, nil), vam(75, 75, filter)}}
			case 2:
				q = models.Query{Property: "_and", And: []models.Query{vam(75, 60, nil), vam(25, 25, nil)}}
			case 3:
				q = models.Query{Property: "_or", Or: []models.Query{vam(25, 5, nil), vam(50, 40, nil), vam(75, 75, nil), flat(5), flat(20)}}
			case 4:
				q = models.Query{Property: "_or", Or: []models.Query{txt(), txt(), {Property: "_and", And: []models.Query{vam(50, 50, nil), vam(75, 70, filter)}}}}
			default:
				q = models.Query{Property: "_and", And: []models.Query{flat(20), flat(15), vam(50, 50, nil)}}
			}
			r.res.Stat("composite_searches", 1)
		}
		sel := []string{"none", "ver", "star"}[g.R.IntN(3)]
		if lazy {
			sel = "star"
		}
		req := models.SearchRequest{Query: q, Limit: 100}
		switch sel {
		case "ver":
			req.Select = []string{"ver", "n"}
		case "star":
			req.Select = []string{"*"}
		}
		if req.Validate() != nil || q.ValidateSchema(r.schema) != nil {
			continue
		}
		call := r.now()
		rs, err := r.s.Shard.SearchPoints(req)
		ret := r.now()
		r.res.Stat("searches", 1)
		if err != nil {
			r.errs.Add(1)
			r.res.Violate("search-error", "C09:search-error:"+errClass(err), fmt.Sprintf("searcher %d: request %s (select %s) failed while writes were running: %v", id, queryString(q), sel, err), nil)
			continue
		}
		h := held{call: call, ret: ret, hits: rs, sel: sel, atCommit: r.commits.Load()}
		if !lazy {
			decode(h)
			continue
		}
		holding = append(holding, h)
		keep := holding[:0]
		for _, hh := range holding {
			if r.commits.Load() >= hh.atCommit+2 {
				decode(hh)
				r.res.Stat("lazy_results_decoded_after_2_commits", 1)
			} else {
				keep = append(keep, hh)
			}
		}
		holding = keep
		if len(holding) > 40 {
			time.Sleep(time.Millisecond)
		}
	}
}

func (c09) RunCase(c fw.Case, env *fw.Env) *fw.CaseResult {
	res := fw.NewResult()
	schema := c09Schema()
	g := gen.New(c.Seed, schema)
	g.NoLattice = true
	g.ExtraProb = 0.3
	path := shardPath(env, "c09")
	m := model.New()
	verN := 0
	nextVer := func() string { verN++; return fmt.Sprintf("v%d", verN) }
	stamp := func(g *gen.G, op *gen.Op) {
		for i := range op.Points {
			if op.Kind == gen.OpInsert {
				// pad so that the file crosses bbolt's mmap growth steps during the run
				op.Points[i].Doc["pad"] = strings.Repeat("p", 200+g.R.IntN(600))
			}
			op.Points[i].Doc["ver"] = nextVer()
		}
	}
	// ---- prefill on a separate instance, so that the run can start cold
	prefill := c.Int("prefill", 300)
	{
		s, err := sx.Open(path, schema, cache.NewManager(-1), 0)
		if err != nil {
			res.Note("open: %v", err)
			res.Inconclusive++
			return res
		}
		for done := 0; done < prefill; {
			n := min(400, prefill-done)
			op := gen.Op{Kind: gen.OpInsert, Tag: "prefill"}
			for i := 0; i < n; i++ {
				op.Points = append(op.Points, model.Point{Id: g.NewId(), Doc: g.Doc()})
			}
			stamp(g, &op)
			if ok, _ := applyOp(res, "C09", s, m, op, -1); !ok {
				s.Close()
				return res
			}
			done += n
		}
		s.Close()
	}
	cacheLimit := int64(-1)
	if strings.Contains(c.Str("phase", ""), "small-cache") {
		cacheLimit = int64(20000 + 30000*(c.Idx%3)) // a few tens of kB: roughly one or two of the five indexes fit
	}
	cm := cache.NewManager(cacheLimit)
	s, err := sx.Open(path, schema, cm, 0)
	if err != nil {
		res.Note("reopen: %v", err)
		res.Inconclusive++
		return res
	}
	defer s.Close()
	var px *proxy.Proxy
	s.Shard.VerifWrapDiskStore(func(ds diskstore.DiskStore) diskstore.DiskStore {
		px = proxy.Wrap(ds)
		return px
	})
	r := &c09run{res: res, s: s, schema: schema, start: time.Now()}
	// initial writes are part of every key's history (interval before everything else)
	for id, d := range m.Docs {
		v, _ := verOf(d)
		r.events = append(r.events, c09Event{client: 0, in: c09Op{kind: "write", key: id.String(), ver: v}, call: -2, ret: -1})
	}
	switch c.Str("start", "warm") {
	case "warm":
		for i := 0; i < 60; i++ {
			s.Search(models.SearchRequest{Query: models.Query{Property: "vec", VectorVamana: &models.SearchVectorVamanaOptions{Vector: g.Vector(6, models.DistanceEuclidean), Operator: models.OperatorNear, SearchSize: 75, Limit: 10}}, Limit: 10})
		}
		s.Search(models.SearchRequest{Query: models.Query{Property: "flat", VectorFlat: &models.SearchVectorFlatOptions{Vector: g.Vector(4, models.DistanceEuclidean), Operator: models.OperatorNear, Limit: 5}}, Limit: 10})
	case "partial":
		for i := 0; i < 3; i++ {
			s.Search(models.SearchRequest{Query: models.Query{Property: "vec", VectorVamana: &models.SearchVectorVamanaOptions{Vector: g.Vector(6, models.DistanceEuclidean), Operator: models.OperatorNear, SearchSize: 25, Limit: 5}}, Limit: 10})
		}
	}
	if c.Str("phase", "") == "forced-interleavings" {
		c09Forced(r, px, g, m, nextVer)
		c09Finish(r, c, env, m, cm, path)
		return res
	}

	// ---- concurrent phase
	// A writer's cache transaction outlives its storage transaction (the cache commit comes after
	// the storage commit returned). Seeded pauses right after the storage commit let the next
	// batch, or a search, get in between the two.
	// ... and a storage read is a place where a goroutine can lose the processor for a while: one read
	// in sixteen of a graph index bucket pauses, which spreads the workers of a batch (and the
	// sub-queries of a search) that miss the cache on the same item
	var opPauses atomic.Uint64
	px.OpHook = func(bucket, kind string, key []byte) {
		if kind != "get" || !strings.Contains(bucket, "vectorVamana") {
			return
		}
		if fw.SplitMix(c.Seed^0x9e37^opPauses.Add(1))%16 == 0 {
			time.Sleep(150 * time.Microsecond)
		}
	}
	var commitPauses atomic.Uint64
	px.AfterCommit = func() {
		n := commitPauses.Add(1)
		switch fw.SplitMix(c.Seed^n) % 6 {
		case 0:
			runtime.Gosched()
		case 1:
			time.Sleep(300 * time.Microsecond)
		case 2:
			time.Sleep(2 * time.Millisecond)
		}
	}
	var liveMu sync.Mutex
	liveIds := m.SortedIds()
	live := func(rng *rand.Rand) []uuid.UUID {
		liveMu.Lock()
		defer liveMu.Unlock()
		if len(liveIds) == 0 {
			return nil
		}
		out := []uuid.UUID{}
		for i := 0; i < 1+rng.IntN(4); i++ {
			out = append(out, liveIds[rng.IntN(len(liveIds))])
		}
		return out
	}
	stop := make(chan struct{})
	var wg sync.WaitGroup
	nS := c.Int("searchers", 8)
	for i := 0; i < nS; i++ {
		wg.Add(1)
		go r.searcher(i+1, fw.SplitMix(c.Seed+uint64(i)), c.Bool("lazy", false), stop, &wg, live)
	}
	batches := c.Int("batches", 40)
	var verMu sync.Mutex
	// one writer stream: its own generator, model and id space (two streams never touch the same point,
	// so each is judged against its own model; storage serialises their batches in some order)
	runWriter := func(client int, g *gen.G, m *model.Model, batches int, shareLive bool) {
		h := gen.NewHistory(g)
		h.MaxBatch = 30
		h.RejectProb = 0.1
		for b := 0; b < batches; b++ {
			op := h.Next(m)
			if op.Kind == gen.OpInsert && b%4 == 0 {
				for len(op.Points) < 60 {
					op.Points = append(op.Points, model.Point{Id: g.NewId(), Doc: g.Doc()})
				}
			}
			verMu.Lock()
			stamp(g, &op)
			verMu.Unlock()
			call := r.now()
			ok, out := applyOp(res, "C09", s, m, op, b)
			ret := r.now()
			if !ok {
				break
			}
			h.Applied(op, out.Deleted)
			if out.Succeeded {
				r.commits.Add(1)
				evs := []c09Event{}
				switch op.Kind {
				case gen.OpDelete:
					for _, id := range out.Deleted {
						evs = append(evs, c09Event{client: client, in: c09Op{kind: "delete", key: id.String()}, call: call, ret: ret})
					}
				case gen.OpInsert:
					for _, p := range op.Points {
						v, _ := verOf(p.Doc)
						evs = append(evs, c09Event{client: client, in: c09Op{kind: "write", key: p.Id.String(), ver: v}, call: call, ret: ret})
					}
				case gen.OpUpdate:
					// several updates of one id in a batch: the last version wins, the
					// earlier ones are never committed states
					last := map[uuid.UUID]string{}
					for _, p := range op.Points {
						if _, lives := m.Docs[p.Id]; lives {
							v, _ := verOf(p.Doc)
							last[p.Id] = v
						}
					}
					for id, v := range last {
						evs = append(evs, c09Event{client: client, in: c09Op{kind: "write", key: id.String(), ver: v}, call: call, ret: ret})
					}
				}
				r.record(evs...)
				if shareLive {
					liveMu.Lock()
					liveIds = m.SortedIds()
					liveMu.Unlock()
				}
			}
			res.Stat("write_batches", 1)
			if b%8 == 7 && shareLive {
				fw.SavePartial(env, res)
			}
		}
	}
	var m2 *model.Model
	var w2 sync.WaitGroup
	if c.Int("writers", 1) >= 2 {
		// a second write stream from another client (its own points only)
		m2 = model.New()
		g2 := gen.New(c.Seed^0x5ec0d, schema)
		g2.NoLattice = true
		g2.ExtraProb = 0.3
		w2.Add(1)
		go func() {
			defer w2.Done()
			runWriter(100, g2, m2, batches, false)
		}()
		res.Stat("runs_with_two_write_streams", 1)
	}
	runWriter(0, g, m, batches, true)
	w2.Wait()
	if m2 != nil {
		for id, d := range m2.Docs {
			m.Docs[id] = d
		}
	}
	// ---- contested inserts: two clients insert at the same moment batches that have one fresh id in
	// common. Storage admits one write at a time, so one of the two finds the id stored and is refused
	// as a whole; exactly one batch ends up stored (the final comparison with the model sees leftovers).
	for round := 0; round < 6; round++ {
		shared := g.NewId()
		ops := make([]gen.Op, 2)
		for k := range ops {
			ops[k] = gen.Op{Kind: gen.OpInsert, Tag: "contested-insert"}
			n := 5 + g.R.IntN(120)
			at := g.R.IntN(n)
			for i := 0; i < n; i++ {
				id := g.NewId()
				if i == at {
					id = shared
				}
				ops[k].Points = append(ops[k].Points, model.Point{Id: id, Doc: g.Doc()})
			}
			stamp(g, &ops[k])
		}
		errs := make([]error, 2)
		calls, rets := make([]int64, 2), make([]int64, 2)
		var cw sync.WaitGroup
		startGate := make(chan struct{})
		for k := range ops {
			cw.Add(1)
			go func(k int) {
				defer cw.Done()
				<-startGate
				calls[k] = r.now()
				errs[k] = s.Insert(ops[k].Points)
				rets[k] = r.now()
			}(k)
		}
		close(startGate)
		cw.Wait()
		res.Stat("contested_insert_rounds", 1)
		res.Eval(true, "contested-insert", round, len(ops[0].Points), len(ops[1].Points))
		switch {
		case errs[0] == nil && errs[1] == nil:
			res.Violate("outcome", "C09:contested-insert-both-accepted", fmt.Sprintf("two concurrent insert batches (%d and %d points) sharing the id %s were both accepted", len(ops[0].Points), len(ops[1].Points), shared), nil)
		case errs[0] != nil && errs[1] != nil:
			res.Violate("outcome", "C09:contested-insert-both-refused", fmt.Sprintf("two concurrent insert batches sharing one fresh id were both refused: %v / %v", errs[0], errs[1]), nil)
		}
		for k := range ops {
			if errs[k] != nil {
				continue
			}
			if errs[1-k] == nil && k == 1 {
				break // both accepted (reported above): the model follows the first
			}
			m.Insert(ops[k].Points)
			r.commits.Add(1)
			evs := []c09Event{}
			for _, p := range ops[k].Points {
				v, _ := verOf(p.Doc)
				evs = append(evs, c09Event{client: 200 + k, in: c09Op{kind: "write", key: p.Id.String(), ver: v}, call: calls[k], ret: rets[k]})
			}
			r.record(evs...)
		}
		liveMu.Lock()
		liveIds = m.SortedIds()
		liveMu.Unlock()
	}
	// ---- contested points: two clients write the SAME stored point at the same moment. Two updates of
	// different fields: whichever order storage gives them, the point ends up with both fields. A
	// delete and an update: whichever order, the point ends up deleted (an update skips an unknown id).
	for round := 0; round < 8 && len(m.Docs) > 0; round++ {
		ids := m.SortedIds()
		pid := ids[g.R.IntN(len(ids))]
		type wr struct {
			upd []model.Point
			del []uuid.UUID
			err error
		}
		ws := []*wr{{upd: []model.Point{{Id: pid, Doc: model.Doc{fmt.Sprintf("cu_a%d", round): int64(round)}}}}, {upd: []model.Point{{Id: pid, Doc: model.Doc{fmt.Sprintf("cu_b%d", round): "b"}}}}}
		if round%2 == 1 {
			ws[g.R.IntN(2)] = &wr{del: []uuid.UUID{pid}}
		}
		// some company in each batch (own points of the other write stream are left alone)
		for _, w := range ws {
			if w.upd != nil {
				for k := 0; k < g.R.IntN(4); k++ {
					other := ids[g.R.IntN(len(ids))]
					if other != pid {
						w.upd = append(w.upd, model.Point{Id: other, Doc: model.Doc{"cu_note": int64(round)}})
					}
				}
			}
		}
		var cw sync.WaitGroup
		gate := make(chan struct{})
		var dcall, dret int64
		for _, w := range ws {
			cw.Add(1)
			go func(w *wr) {
				defer cw.Done()
				<-gate
				if w.del != nil {
					dcall = r.now()
					_, w.err = s.Delete(w.del)
					dret = r.now()
				} else {
					_, w.err = s.Update(w.upd)
				}
			}(w)
		}
		close(gate)
		cw.Wait()
		res.Stat("contested_point_rounds", 1)
		res.Eval(true, "contested-point", round, round%2)
		deleted := false
		for _, w := range ws {
			if w.err != nil {
				res.Violate("outcome", "C09:contested-point-error:"+errClass(w.err), fmt.Sprintf("two concurrent batches on the stored point %s: one of them failed: %v", pid, w.err), nil)
			}
			if w.del != nil {
				deleted = true
			}
		}
		// the model: updates of points other than the contested one commute with everything here
		for _, w := range ws {
			if w.upd != nil {
				m.Update(w.upd, 0)
			}
		}
		if deleted {
			m.Delete([]uuid.UUID{pid})
			r.commits.Add(1)
			r.record(c09Event{client: 300, in: c09Op{kind: "delete", key: pid.String()}, call: dcall, ret: dret})
			liveMu.Lock()
			liveIds = m.SortedIds()
			liveMu.Unlock()
		}
	}
	// let the searchers overlap the tail, then stop them
	time.Sleep(20 * time.Millisecond)
	close(stop)
	wg.Wait()
	c09Finish(r, c, env, m, cm, path)
	return res
}

// c09Finish checks the recorded history and the final state.
func c09Finish(r *c09run, c fw.Case, env *fw.Env, m *model.Model, cm *cache.Manager, path string) {
	res := r.res
	// ---- porcupine, per key
	r.mu.Lock()
	events := r.events
	r.mu.Unlock()
	ops := make([]porcupine.Operation, 0, len(events))
	perKey := map[string][]c09Event{}
	for _, e := range events {
		ops = append(ops, porcupine.Operation{ClientId: e.client, Input: e.in, Output: e.out, Call: e.call, Return: e.ret})
		perKey[e.in.key] = append(perKey[e.in.key], e)
	}
	res.Stat("history_events", int64(len(events)))
	res.Stat("keys_in_history", int64(len(perKey)))
	for k, evs := range perKey {
		overlap := false
		var sig strings.Builder
		reads := 0
		for _, w := range evs {
			sig.WriteString(w.in.kind[:1])
			if w.in.kind == "read" {
				reads++
				continue
			}
			for _, rd := range evs {
				if rd.in.kind == "read" && rd.call < w.ret && w.call < rd.ret {
					overlap = true
				}
			}
		}
		if reads > 0 {
			res.Eval(overlap, k, sig.String())
		}
	}
	result, info := porcupine.CheckOperationsVerbose(c09Model, ops, 3*time.Minute)
	switch result {
	case porcupine.Illegal:
		// find the offending keys for a readable witness
		reported := 0
		for k, evs := range perKey {
			kops := make([]porcupine.Operation, 0, len(evs))
			for _, e := range evs {
				kops = append(kops, porcupine.Operation{ClientId: e.client, Input: e.in, Output: e.out, Call: e.call, Return: e.ret})
			}
			if porcupine.CheckOperations(c09Model, kops) {
				continue
			}
			sort.Slice(evs, func(i, j int) bool { return evs[i].call < evs[j].call })
			lines := []string{}
			for _, e := range evs {
				if len(lines) < 40 {
					lines = append(lines, fmt.Sprintf("[%d..%d] client %d %s %s -> %s", e.call/1000, e.ret/1000, e.client, e.in.kind, e.in.ver, e.out))
				}
			}
			kind := "stale-or-uncommitted-read"
			res.Violate(kind, "C09:illegal-read:"+c.Str("phase", ""), fmt.Sprintf("point %s: the reads returned by searches are not explained by any committed version at some moment during the search (times in microseconds):\n%s", k, strings.Join(lines, "\n")), nil)
			reported++
			if reported >= 3 {
				break
			}
		}
		_ = info
	case porcupine.Unknown:
		res.Inconclusive++
		res.Note("porcupine timed out on %d operations", len(ops))
	}
	// ---- final state = sequential application of the successful batches
	checkStore(res, "C09:final", r.s, m, nil, 9999, true)
	// ---- warm answers equal cold answers
	g := gen.New(c.Seed^0xabc, r.schema)
	g.NoLattice = true
	cp := path + ".final"
	if err := sx.CopyFile(path, cp); err == nil {
		if cold, err := sx.Open(cp, r.schema, nil, 0); err == nil {
			for i := 0; i < 40; i++ {
				var q models.Query
				switch i % 4 {
				case 0:
					q = models.Query{Property: "vec", VectorVamana: &models.SearchVectorVamanaOptions{Vector: g.Vector(6, models.DistanceEuclidean), Operator: models.OperatorNear, SearchSize: 50, Limit: 20}}
				case 1:
					q = models.Query{Property: "flat", VectorFlat: &models.SearchVectorFlatOptions{Vector: g.Vector(4, models.DistanceEuclidean), Operator: models.OperatorNear, Limit: 20}}
				case 2:
					q = models.Query{Property: "txt", Text: &models.SearchTextOptions{Value: textQuery(g), Operator: models.OperatorContainsAny, Limit: 20}}
				default:
					q = intQ("n", models.OperatorGreaterThan, 0, 0)
				}
				req := models.SearchRequest{Query: q, Limit: 100, Select: []string{"ver"}}
				wh, werr := r.s.Search(req)
				ch, cerr := cold.Search(req)
				res.Stat("final_warm_cold_comparisons", 1)
				if diff := sameAnswer(answer{wh, werr}, answer{ch, cerr}, hasRanking(q)); diff != "" {
					res.Violate("warm-vs-cold", "C09:final-warm-vs-cold:"+leafKinds(q), fmt.Sprintf("after the writers finished, %s is answered differently by the running instance and a cold instance: %s", queryString(q), diff), nil)
				}
			}
			cold.Close()
		}
		os.Remove(cp)
	}
	res.Sample(map[string]any{"phase": c.Str("phase", ""), "searchers": c.Int("searchers", 0), "start": c.Str("start", ""), "history_events": len(events), "keys": len(perKey), "commits": r.commits.Load(), "search_errors": r.errs.Load()})
}

// c09Forced drives the forced interleavings through proxy pauses.
func c09Forced(r *c09run, px *proxy.Proxy, g *gen.G, m *model.Model, nextVer func() string) {
	res := r.res
	mkBatch := func() gen.Op {
		ids := m.SortedIds()
		op := gen.Op{Kind: gen.OpUpdate, Tag: "forced-update"}
		for i := 0; i < 10 && i < len(ids); i++ {
			id := ids[g.R.IntN(len(ids))]
			op.Points = append(op.Points, model.Point{Id: id, Doc: model.Doc{"vec": g.Vector(6, models.DistanceEuclidean), "n": g.IntValue(), "ver": nextVer()}})
		}
		return op
	}
	mkDelete := func() gen.Op {
		ids := m.SortedIds()
		op := gen.Op{Kind: gen.OpDelete, Tag: "forced-delete"}
		for i := 0; i < 25 && i < len(ids); i++ {
			op.Ids = append(op.Ids, ids[g.R.IntN(len(ids))])
		}
		return op
	}
	record := func(op gen.Op, out opOutcome, call, ret int64) {
		if !out.Succeeded {
			return
		}
		r.commits.Add(1)
		evs := []c09Event{}
		if op.Kind == gen.OpDelete {
			for _, id := range out.Deleted {
				evs = append(evs, c09Event{client: 0, in: c09Op{kind: "delete", key: id.String()}, call: call, ret: ret})
			}
		} else {
			last := map[uuid.UUID]string{}
			for _, p := range op.Points {
				if _, lives := m.Docs[p.Id]; lives {
					v, _ := verOf(p.Doc)
					last[p.Id] = v
				}
			}
			for id, v := range last {
				evs = append(evs, c09Event{client: 0, in: c09Op{kind: "write", key: id.String(), ver: v}, call: call, ret: ret})
			}
		}
		r.record(evs...)
	}
	search := func(id int, q models.Query) {
		req := models.SearchRequest{Query: q, Limit: 100, Select: []string{"ver"}}
		call := r.now()
		rs, err := r.s.Shard.SearchPoints(req)
		ret := r.now()
		res.Stat("searches", 1)
		if err != nil {
			r.errs.Add(1)
			res.Violate("search-error", "C09:search-error:"+errClass(err), fmt.Sprintf("forced interleaving: request %s failed: %v", queryString(q), err), nil)
			return
		}
		evs := []c09Event{}
		for _, hit := range sx.DecodeResults(rs) {
			v, ok := verOf(hit.Doc)
			if !ok {
				continue
			}
			evs = append(evs, c09Event{client: id, in: c09Op{kind: "read", key: hit.Id.String()}, out: v, call: call, ret: ret})
		}
		r.record(evs...)
	}
	vq := func() models.Query {
		return models.Query{Property: "vec", VectorVamana: &models.SearchVectorVamanaOptions{Vector: g.Vector(6, models.DistanceEuclidean), Operator: models.OperatorNear, SearchSize: 75, Limit: 50}}
	}
	for round := 0; round < 12; round++ {
		// (a) a search takes its snapshot, a writer commits (storage and cache), the search continues
		var once sync.Once
		started := make(chan struct{})
		resume := make(chan struct{})
		px.AfterReadTx = func() {
			first := false
			once.Do(func() { first = true })
			if first {
				close(started)
				<-resume
			}
		}
		op := mkBatch()
		if round%3 == 2 {
			op = mkDelete()
		}
		// the paused search looks exactly where the batch is going to write: at the vector of a point
		// the batch inserts, rewrites or deletes (a search whose cache is ahead of its snapshot meets
		// nodes there whose points its snapshot does not have, or the other way round)
		q1 := vq()
		var target model.Doc
		if len(op.Points) > 0 {
			target = op.Points[g.R.IntN(len(op.Points))].Doc
		} else if len(op.Ids) > 0 {
			target = m.Docs[op.Ids[g.R.IntN(len(op.Ids))]]
		}
		if v, ok := model.AsVector(target, "vec"); ok && len(v) == 6 {
			q1.VectorVamana.Vector = append([]float32{}, v...)
			res.Stat("forced_searches_aimed_at_the_batch", 1)
		}
		var wg sync.WaitGroup
		wg.Add(1)
		go func() { defer wg.Done(); search(1, q1) }()
		<-started
		px.AfterReadTx = nil
		var ok bool
		var out opOutcome
		var call, ret int64
		wdone := make(chan struct{})
		go func() {
			call = r.now()
			ok, out = applyOp(res, "C09", r.s, m, op, round)
			ret = r.now()
			close(wdone)
		}()
		select {
		case <-wdone:
			res.Stat("forced_interleavings_snapshot_before_commit", 1)
		case <-time.After(1500 * time.Millisecond):
			// bbolt makes a writer that has to grow the memory map wait for open
			// read transactions: this order cannot occur for this batch
			res.Stat("forced_interleavings_not_realisable_writer_waits_for_reader", 1)
		}
		close(resume)
		<-wdone
		if ok {
			record(op, out, call, ret)
		}
		wg.Wait()
		// (c) a search is issued between the storage commit and the cache commit of a write
		committed := make(chan struct{})
		cont := make(chan struct{})
		var once2 sync.Once
		px.AfterCommit = func() {
			first := false
			once2.Do(func() { first = true })
			if first {
				close(committed)
				<-cont
			}
		}
		op2 := mkBatch()
		var out2 opOutcome
		var ok2 bool
		var call2, ret2 int64
		wg.Add(1)
		go func() {
			defer wg.Done()
			call2 = r.now()
			ok2, out2 = applyOp(res, "C09", r.s, m, op2, round)
			ret2 = r.now()
		}()
		select {
		case <-committed:
			px.AfterCommit = nil
			done := make(chan struct{})
			go func() { search(2, vq()); search(2, intQ("n", models.OperatorGreaterOrEq, -5, 0)); close(done) }()
			select {
			case <-done:
			case <-time.After(20 * time.Second):
				res.Violate("blocked-search", "C09:search-blocked-by-writer", "a search issued between the storage commit and the cache commit of a write did not return within 20 s (readers must continue on a cold copy, not block)", nil)
			}
			close(cont)
		case <-time.After(30 * time.Second):
			px.AfterCommit = nil
			res.Inconclusive++
		}
		wg.Wait()
		if ok2 {
			record(op2, out2, call2, ret2)
		}
		res.Stat("forced_interleavings_between_storage_and_cache_commit", 1)
	}
}
