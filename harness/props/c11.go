package props

import (
	"errors"
	"fmt"
	"math/rand/v2"
	"runtime"
	"strings"
	"sync"
	"sync/atomic"
	"time"

	"github.com/semafind/semadb/shard/cache"
	"semaverif/fw"
)

// C11: shared-cache transactions isolate writers, drop failed state, release locks.
type c11 struct{}

func init() { fw.Register(c11{}) }

func (c11) ID() string { return "C11" }

// The instrumented callbacks write a plain field of the cache object on purpose: two of them racing means
// two transactions were inside one cache at the same time.
func (c11) HarnessRacesAreSignals() bool { return true }
func (c11) Level() string                { return "exploration" }
func (c11) Rule() string {
	return "unit = one executed schedule: up to three transactions (each a program of 1..4 read-only or writing accesses to the cache names A/B with callbacks that may fail, constructors that may fail, optional sibling goroutines inside the transaction (reading; writing only in schedules whose other transactions all read), then Commit(false|true)) run concurrently on one cache.Manager with size limit -1, 0 or small, with Release calls at random moments; the interleaving is steered by seeded delays at the verif pause points inside Transaction.With / Commit and inside the callbacks, and by writers parked inside their callback while readers are issued. Online monitor in the instrumented callbacks (objects are harness Cachables with serial numbers): (1) no callback of another transaction on an object between a transaction's first writing entry and its call of Commit, and no writer entering while another transaction's reader is inside; (2) an object that a failed transaction wrote or failed on - or built in a read-only access after it had started writing that name (its own cache having left the manager meanwhile) - is never handed to a callback again; (3) a read-only access issued while a writer is parked inside its callback starts its callback on a different object instead of blocking; (4) after everyone finished, a fresh writing transaction on every name completes; plus the race detector over the callbacks' plain field writes. Non-trivial = at least two transactions touched the same name, one of them writing; distinct by (programs, observed entry order)."
}
func (c11) Assumptions() []string {
	return []string{"'touched by a failed transaction' = written by it or failed on; caches it merely read may be reused", "ownership ends when Commit is called (not when it returns)", "race reports inside manager.go itself are attributed to C09's safety clause and only counted here"}
}
func (c11) Floor(tier string) int {
	if tier == "thorough" {
		return 100000
	}
	return 1000
}
func (c11) Timeout(string) time.Duration { return 20 * time.Minute }
func (c11) Parallel(string) int          { return 8 }

func (c11) Cases(tier string, seed uint64) []fw.Case {
	chunks, per := 8, 500
	if tier == "thorough" {
		chunks, per = 32, 6000
	}
	cs := make([]fw.Case, chunks)
	for i := range cs {
		cs[i] = fw.Case{Seed: fw.CaseSeed(seed, "C11", i), Name: fmt.Sprintf("chunk%d", i), Params: map[string]any{"schedules": per, "twoGoroutines": i%2 == 1}}
	}
	return cs
}

// ---- instrumented cachable

type c11obj struct {
	serial  int64
	name    string
	size    int64
	owner   atomic.Int64 // transaction id of the current write owner, 0 = none
	readers sync.Map     // tx id -> *atomic.Int64 (active read callbacks)
	dead    atomic.Bool
	deadBy  atomic.Int64 // transaction that killed it
	// the transaction that built this object in a read-only access AFTER it had started writing
	// the same name (its own cache had left the manager meanwhile): the object shows that
	// transaction's uncommitted view and dies with it if it fails
	taintedBy atomic.Int64
	scratch   int // plain field: overlapping callbacks of different transactions are a data race
}

func (o *c11obj) SizeInMemory() int64 { return o.size }

type c11access struct {
	name       string
	readOnly   bool
	cbFails    bool
	makeFails  bool
	park       bool // writer parks inside the callback until released
	secondGoro bool
}

type c11tx struct {
	id     int64
	prog   []c11access
	commit bool // Commit(true)?
	// goroutines of ONE transaction may use a cache together (by design); this
	// mutex orders their accesses to the plain field so that the race detector
	// only reports overlaps between DIFFERENT transactions
	mu sync.Mutex
	// names this transaction has started writing (set inside its writing callbacks, under mu)
	wrote map[string]bool
}

type c11world struct {
	res      *fw.CaseResult
	mgr      *cache.Manager
	serial   atomic.Int64
	mu       sync.Mutex
	entries  []string
	objs     []*c11obj
	rngSeed  uint64
	schedule uint64
	viol     atomic.Int64
}

var errCallback = errors.New("callback failed on purpose")
var errConstruct = errors.New("constructor failed on purpose")

func (w *c11world) delay(tag string, tx int64, n int) {
	h := fw.SplitMix(w.schedule ^ fw.Hash64(tag) ^ uint64(tx)<<32 ^ uint64(n))
	switch h % 8 {
	case 0, 1, 2:
	case 3, 4:
		runtime.Gosched()
	case 5:
		time.Sleep(20 * time.Microsecond)
	case 6:
		time.Sleep(100 * time.Microsecond)
	case 7:
		time.Sleep(400 * time.Microsecond)
	}
}

func (w *c11world) log(format string, a ...any) {
	w.mu.Lock()
	if len(w.entries) < 60 {
		w.entries = append(w.entries, fmt.Sprintf(format, a...))
	}
	w.mu.Unlock()
}

func (w *c11world) violate(kind, sig, msg string) {
	w.viol.Add(1)
	w.mu.Lock()
	trace := strings.Join(w.entries, "\n")
	w.mu.Unlock()
	w.res.Violate(kind, "C11:"+sig, msg+"\nentry log:\n"+trace, nil)
}

// access performs one With call for transaction tx.
func (w *c11world) access(t *cache.Transaction, tx *c11tx, a c11access, idx int, parked chan struct{}, release chan struct{}) error {
	create := func() (cache.Cachable, error) {
		if a.makeFails {
			return nil, errConstruct
		}
		o := &c11obj{serial: w.serial.Add(1), name: a.name, size: 100}
		if a.readOnly {
			tx.mu.Lock()
			if tx.wrote[a.name] {
				o.taintedBy.Store(tx.id)
			}
			tx.mu.Unlock()
		}
		w.mu.Lock()
		w.objs = append(w.objs, o)
		w.mu.Unlock()
		return o, nil
	}
	return t.With(a.name, a.readOnly, create, func(c cache.Cachable) error {
		o := c.(*c11obj)
		mode := "write"
		if a.readOnly {
			mode = "read"
		}
		w.log("tx%d %s enters obj#%d(%s)", tx.id, mode, o.serial, o.name)
		if o.dead.Load() && o.deadBy.Load() != tx.id {
			w.violate("dead-cache-reused", "dead-reuse:"+mode, fmt.Sprintf("transaction %d was handed object #%d of cache %q for a %s access although a failed transaction wrote it or failed on it before", tx.id, o.serial, o.name, mode))
		}
		if own := o.owner.Load(); own != 0 && own != tx.id {
			w.violate("isolation", "entered-owned-cache:"+mode, fmt.Sprintf("transaction %d entered object #%d of cache %q (%s) while transaction %d has written it and not yet committed", tx.id, o.serial, o.name, mode, own))
		}
		if a.readOnly {
			cnt, _ := o.readers.LoadOrStore(tx.id, new(atomic.Int64))
			cnt.(*atomic.Int64).Add(1)
			defer cnt.(*atomic.Int64).Add(-1)
		} else {
			o.readers.Range(func(k, v any) bool {
				if k.(int64) != tx.id && v.(*atomic.Int64).Load() > 0 {
					w.violate("isolation", "writer-entered-while-read", fmt.Sprintf("transaction %d started writing object #%d of cache %q while transaction %d is still reading it", tx.id, o.serial, o.name, k.(int64)))
				}
				return true
			})
			o.owner.Store(tx.id)
		}
		// plain field access: overlapping callbacks of different transactions race
		tx.mu.Lock()
		o.scratch++
		if !a.readOnly {
			if tx.wrote == nil {
				tx.wrote = map[string]bool{}
			}
			tx.wrote[a.name] = true
		}
		tx.mu.Unlock()
		w.delay("in-callback", tx.id, idx)
		if a.park && parked != nil {
			close(parked)
			<-release
		}
		tx.mu.Lock()
		o.scratch++
		tx.mu.Unlock()
		if !a.readOnly {
			// still the owner?
			if own := o.owner.Load(); own != tx.id {
				w.violate("isolation", "ownership-lost", fmt.Sprintf("transaction %d lost ownership of object #%d of cache %q to transaction %d during its callback", tx.id, o.serial, o.name, own))
			}
		}
		if a.cbFails {
			o.deadBy.CompareAndSwap(0, tx.id)
			o.dead.Store(true)
			return errCallback
		}
		return nil
	})
}

func genC11Program(rng *rand.Rand, two bool) []c11access {
	n := 1 + rng.IntN(4)
	p := make([]c11access, n)
	for i := range p {
		p[i] = c11access{name: []string{"A", "B"}[rng.IntN(2)], readOnly: rng.IntN(2) == 0, cbFails: rng.IntN(7) == 0, makeFails: rng.IntN(12) == 0}
		// a second goroutine inside a transaction only reads (as the parallel
		// sub-queries of one search do); parallel writers of one transaction would
		// take their write locks in an order the program does not control
		p[i].secondGoro = two && p[i].readOnly && rng.IntN(3) == 0
	}
	// Writers wait for the cache lock (by design: storage admits one writer
	// per shard at a time, and a shard's writer takes its index caches in one
	// order). Two writers taking A and B in opposite orders is outside the
	// statement, which promises progress only after commit or abort, so every
	// program takes its first write on A before its first write on B.
	firstW := map[string]int{}
	for i, a := range p {
		if !a.readOnly {
			if _, ok := firstW[a.name]; !ok {
				firstW[a.name] = i
			}
		}
	}
	if ia, oka := firstW["A"]; oka {
		if ib, okb := firstW["B"]; okb && ib < ia {
			for i := range p {
				if p[i].name == "A" {
					p[i].name = "B"
				} else {
					p[i].name = "A"
				}
			}
		}
	}
	// ... and never writes A again after it wrote B: when A's cache was evicted or
	// scrapped and rebuilt by someone else in the meantime, that second write locks a
	// different element, i.e. takes an "A" lock after a "B" lock
	wroteB := false
	for i := range p {
		if p[i].readOnly {
			continue
		}
		if p[i].name == "B" {
			wroteB = true
		} else if wroteB {
			p[i].readOnly = true
		}
	}
	return p
}

func progString(p []c11access) string {
	parts := make([]string, len(p))
	for i, a := range p {
		s := "W"
		if a.readOnly {
			s = "R"
		}
		s += a.name
		if a.cbFails {
			s += "!cb"
		}
		if a.makeFails {
			s += "!mk"
		}
		if a.secondGoro {
			s += "+g"
		}
		parts[i] = s
	}
	return strings.Join(parts, ",")
}

func (c11) RunCase(c fw.Case, env *fw.Env) *fw.CaseResult {
	res := fw.NewResult()
	rng := rand.New(rand.NewPCG(c.Seed, 11))
	nSched := c.Int("schedules", 500)
	two := c.Bool("twoGoroutines", false)
	hookCalls := atomic.Int64{}
	for sc := 0; sc < nSched; sc++ {
		limit := []int64{-1, -1, 0, 150, 250}[rng.IntN(5)]
		w := &c11world{res: res, mgr: cache.NewManager(limit), schedule: rng.Uint64()}
		hook := func(point, name string) {
			hookCalls.Add(1)
			w.delay(point+name, 0, int(hookCalls.Load()%7))
		}
		cache.VerifHook.Store(&hook)
		// optional warm-up so that caches exist
		if rng.IntN(2) == 0 {
			t := w.mgr.NewTransaction()
			for _, n := range []string{"A", "B"} {
				w.access(t, &c11tx{id: 99}, c11access{name: n, readOnly: rng.IntN(2) == 0}, 0, nil, nil)
			}
			// ownership ends at the call of Commit
			clearOwner(w, 99)
			t.Commit(false)
		}
		nTx := 2 + rng.IntN(2)
		txs := make([]*c11tx, nTx)
		for i := range txs {
			txs[i] = &c11tx{id: int64(i + 1), prog: genC11Program(rng, two), commit: rng.IntN(4) == 0}
		}
		// scenario: sometimes transaction 1 parks inside a writing callback and a
		// reader is issued meanwhile (readers must not block)
		parkScenario := rng.IntN(4) == 0
		var parked, release chan struct{}
		if parkScenario {
			txs[0].prog = []c11access{{name: "A", readOnly: false, park: true}}
			parked, release = make(chan struct{}), make(chan struct{})
		}
		// scenario: transaction 1 is the only writer and makes all its writing accesses to one
		// name from sibling goroutines (the others only read). With a single writing
		// transaction no lock order between transactions exists, so it must finish. Sibling
		// writers next to other writers are left out: a name can have two live elements (one
		// evicted or scrapped while still held), and siblings that looked the name up before
		// and after wait for each other's element - an order no program controls, observed on
		// the unchanged tree (DESIGN 8.10).
		if two && !parkScenario && rng.IntN(5) == 0 {
			name := []string{"A", "B"}[rng.IntN(2)]
			k := 2 + rng.IntN(3)
			prog := make([]c11access, k)
			for i := range prog {
				prog[i] = c11access{name: name, secondGoro: i > 0 || rng.IntN(2) == 0, cbFails: rng.IntN(10) == 0}
			}
			txs[0].prog = prog
			for _, tx := range txs[1:] {
				for i := range tx.prog {
					tx.prog[i].readOnly = true
				}
			}
			res.Stat("sibling_writer_schedules", 1)
		}
		var wg sync.WaitGroup
		touched := map[string][2]int{} // name -> [txs touching, writers]
		for _, tx := range txs {
			seen := map[string]bool{}
			wrote := map[string]bool{}
			for _, a := range tx.prog {
				seen[a.name] = true
				if !a.readOnly {
					wrote[a.name] = true
				}
			}
			for n := range seen {
				v := touched[n]
				v[0]++
				if wrote[n] {
					v[1]++
				}
				touched[n] = v
			}
		}
		nontrivial := false
		for _, v := range touched {
			if v[0] >= 2 && v[1] >= 1 {
				nontrivial = true
			}
		}
		done := make(chan struct{})
		for _, tx := range txs {
			wg.Add(1)
			go func(tx *c11tx) {
				defer wg.Done()
				t := w.mgr.NewTransaction()
				var failedFlag atomic.Bool
				var inner sync.WaitGroup
				for i, a := range tx.prog {
					w.delay("before-access", tx.id, i)
					if a.secondGoro {
						inner.Add(1)
						go func(i int, a c11access) {
							defer inner.Done()
							if err := w.access(t, tx, a, i, nil, nil); err != nil {
								failedFlag.Store(true)
							}
						}(i, a)
						continue
					}
					var pk, rl chan struct{}
					if a.park {
						pk, rl = parked, release
					}
					if err := w.access(t, tx, a, i, pk, rl); err != nil {
						failedFlag.Store(true)
					}
				}
				inner.Wait()
				fail := failedFlag.Load() || tx.commit
				if fail {
					// everything this transaction wrote is now dead
					markDead(w, tx.id)
				}
				clearOwner(w, tx.id)
				t.Commit(fail)
			}(tx)
		}
		if parkScenario {
			select {
			case <-parked:
				// the writer is inside its callback on A: a reader must proceed on a private copy
				rd := make(chan error, 1)
				go func() {
					t := w.mgr.NewTransaction()
					err := w.access(t, &c11tx{id: 50}, c11access{name: "A", readOnly: true}, 0, nil, nil)
					t.Commit(false)
					rd <- err
				}()
				select {
				case <-rd:
					res.Stat("readers_served_while_writer_parked", 1)
				case <-time.After(5 * time.Second):
					w.violate("reader-blocked", "reader-blocked-by-writer", "a read-only access to cache A did not start its callback within 5 s while a writer was parked inside its own callback on A (readers must continue on a private cold copy instead of blocking)")
				}
				close(release)
			case <-time.After(5 * time.Second):
				close(release) // the writer never reached its callback (e.g. constructor order); nothing to observe
			}
		}
		go func() { wg.Wait(); close(done) }()
		select {
		case <-done:
		case <-time.After(20 * time.Second):
			wit, dump := c11Witness()
			if wit != "" {
				w.violate("deadlock", "transactions-stuck", "transactions did not finish within 20 s; goroutine dump shows: "+wit+"\nprograms: "+fmt.Sprint(progsOf(txs))+"\n"+trimStacks(dump))
			} else {
				res.Inconclusive++
				res.Note("schedule %d did not finish within 20 s without a deadlock witness", sc)
			}
			return res
		}
		// random release / eviction, then progress: a fresh writer on every name completes
		if rng.IntN(2) == 0 {
			w.mgr.Release([]string{"A", "B"}[rng.IntN(2)])
		}
		prog := make(chan struct{})
		go func() {
			t := w.mgr.NewTransaction()
			for _, n := range []string{"A", "B"} {
				w.access(t, &c11tx{id: 77}, c11access{name: n, readOnly: false}, 0, nil, nil)
			}
			clearOwner(w, 77)
			t.Commit(false)
			close(prog)
		}()
		select {
		case <-prog:
		case <-time.After(10 * time.Second):
			if wit, _ := c11Witness(); wit != "" {
				w.violate("lock-not-released", "no-progress-after-finish", "after all transactions committed or aborted, a fresh writing transaction on A and B did not complete within 10 s: "+wit)
			} else {
				res.Inconclusive++
			}
			return res
		}
		progs := make([]string, len(txs))
		for i, tx := range txs {
			progs[i] = progString(tx.prog)
		}
		w.mu.Lock()
		order := strings.Join(w.entries, ";")
		w.mu.Unlock()
		res.Eval(nontrivial, strings.Join(progs, " | "), order, limit)
		if sc == 0 {
			res.Sample(map[string]any{"programs": progs, "cache_limit": limit, "entry_order": w.entriesCopy(8)})
		}
		if w.viol.Load() > 0 && len(res.Violations) >= 10 {
			break
		}
	}
	var nilHook *func(point, name string)
	cache.VerifHook.Store(nilHook)
	res.Stat("pause_point_visits", hookCalls.Load())
	return res
}

// c11Witness samples all goroutines twice, one second apart (every harness delay is below a
// millisecond, so whoever is still inside a transaction then is not merely slow). It is a witness
// when both samples show the same non-empty set of goroutines waiting for a lock inside semadb code
// and nobody active inside semadb code: either a cycle, or - with a single waiter - a lock whose
// holder has returned without releasing it.
func c11Witness() (string, string) {
	sample := func() (string, string) {
		buf := make([]byte, 1<<20)
		n := runtime.Stack(buf, true)
		return fw.DeadlockWitnessMin(string(buf[:n]), 1), string(buf[:n])
	}
	w1, _ := sample()
	if w1 == "" {
		return "", ""
	}
	time.Sleep(time.Second)
	w2, d2 := sample()
	if w2 != w1 {
		return "", ""
	}
	return w2, d2
}

func progsOf(txs []*c11tx) []string {
	out := make([]string, len(txs))
	for i, tx := range txs {
		out[i] = fmt.Sprintf("tx%d[%s commitFail=%v]", tx.id, progString(tx.prog), tx.commit)
	}
	return out
}

func (w *c11world) entriesCopy(n int) []string {
	w.mu.Lock()
	defer w.mu.Unlock()
	if len(w.entries) > n {
		return append([]string{}, w.entries[:n]...)
	}
	return append([]string{}, w.entries...)
}

func clearOwner(w *c11world, tx int64) {
	for _, o := range w.objsCopy() {
		o.owner.CompareAndSwap(tx, 0)
	}
}

func markDead(w *c11world, tx int64) {
	for _, o := range w.objsCopy() {
		if o.owner.Load() == tx || o.taintedBy.Load() == tx {
			o.deadBy.CompareAndSwap(0, tx)
			o.dead.Store(true)
		}
	}
}

func (w *c11world) objsCopy() []*c11obj {
	w.mu.Lock()
	defer w.mu.Unlock()
	return append([]*c11obj{}, w.objs...)
}
