package props

import (
	"fmt"
	"math"
	"math/bits"

	"github.com/google/uuid"
	"github.com/semafind/semadb/models"
	"semaverif/fw"
	"semaverif/gen"
	"semaverif/model"
	"semaverif/sx"
)

// vecOracle recomputes "the index's distance" for one vector index from the
// configured metric and, once a quantiser has been trained, from the persisted
// quantiser parameters and the persisted code of each point (DESIGN C03/C04).
type vecOracle struct {
	prop   string
	bucket string
	dim    int
	metric string
	quant  *models.Quantizer
	// effective mode
	mode      string // "float" | "bits" | "pq"
	bitMetric string
	floatName string // metric used in float mode
	threshold []float32
	fixedThr  *float32
	// pq
	centroids    []float32
	numCentroids int
	numSub       int
	subLen       int
	pqMetric     string
	// per point
	nodeOf map[uuid.UUID]uint64
	idOf   map[uint64]uuid.UUID
	graph  *sx.GraphView
	notes  []string
}

func indexBucket(prop string, sv models.IndexSchemaValue) string {
	return fmt.Sprintf("index/%s/%s", sv.Type, prop)
}

func newVecOracle(d *sx.Dump, prop string, sv models.IndexSchemaValue) *vecOracle {
	dim, metric, q := gen.VectorParams(sv)
	o := &vecOracle{prop: prop, bucket: indexBucket(prop, sv), dim: dim, metric: metric, quant: q, mode: "float", floatName: metric}
	pv := d.Points()
	o.nodeOf = pv.IdToNode
	o.idOf = pv.NodeToId
	o.graph = d.Graph(o.bucket)
	if metric == models.DistanceHamming || metric == models.DistanceJaccard {
		thr := float32(0.5)
		o.mode, o.bitMetric, o.fixedThr = "bits", metric, &thr
		return o
	}
	if q == nil || q.Type == models.QuantizerNone {
		return o
	}
	switch q.Type {
	case models.QuantizerBinary:
		o.bitMetric = q.Binary.DistanceMetric
		if q.Binary.Threshold != nil {
			o.mode, o.fixedThr = "bits", q.Binary.Threshold
			return o
		}
		if tb, ok := o.graph.Other["_binaryQuantizerThreshold"]; ok {
			o.mode = "bits"
			o.threshold = sx.Floats(tb)
		}
	case models.QuantizerProduct:
		o.pqMetric = metric
		if metric == models.DistanceCosine {
			o.pqMetric = models.DistanceEuclidean
			// the product quantiser replaces cosine by euclidean from the start
			o.floatName = models.DistanceEuclidean
		}
		o.numCentroids, o.numSub = q.Product.NumCentroids, q.Product.NumSubVectors
		o.subLen = dim / o.numSub
		if cb, ok := o.graph.Other["_productQuantizerFlatCentroids"]; ok {
			o.mode = "pq"
			o.centroids = sx.Floats(cb)
			o.checkCentroidTable()
		}
	}
	return o
}

// checkCentroidTable compares the persisted centroid-to-centroid distance table of a trained product
// quantiser (what point-to-point distances are looked up from while the graph is built and pruned)
// with the metric evaluated on the persisted centroids themselves, including the diagonal.
func (o *vecOracle) checkCentroidTable() {
	tb, ok := o.graph.Other["_productQuantizerCentroidDists"]
	if !ok {
		o.notes = append(o.notes, "product quantiser is trained (centroids persisted) but the centroid distance table is missing")
		return
	}
	table := sx.Floats(tb)
	k, ns, sl := o.numCentroids, o.numSub, o.subLen
	if len(table) != ns*k*k || len(o.centroids) != ns*k*sl {
		o.notes = append(o.notes, fmt.Sprintf("product quantiser tables have lengths %d / %d, expected %d / %d", len(table), len(o.centroids), ns*k*k, ns*k*sl))
		return
	}
	for i := 0; i < ns; i++ {
		for a := 0; a < k; a++ {
			for b := 0; b < k; b++ {
				ca := o.centroids[i*k*sl+a*sl : i*k*sl+(a+1)*sl]
				cb := o.centroids[i*k*sl+b*sl : i*k*sl+(b+1)*sl]
				want := model.Metric(o.pqMetric, ca, cb)
				got := float64(table[i*k*k+a*k+b])
				if math.Abs(got-want.V) > want.Bound()+1e-30 {
					o.notes = append(o.notes, fmt.Sprintf("product quantiser (%s): persisted distance between centroids %d and %d of sub-vector %d is %g, the metric on the persisted centroids gives %g", o.pqMetric, a, b, i, got, want.V))
					if len(o.notes) >= 3 {
						return
					}
				}
			}
		}
	}
}

func (o *vecOracle) trained() bool { return o.mode != "float" }

func (o *vecOracle) thresholdBits(v []float32) []bool {
	if o.fixedThr != nil {
		return model.Threshold(v, nil, *o.fixedThr)
	}
	return model.Threshold(v, o.threshold, 0)
}

// dist is the expected reported distance between query and the stored point.
// problem is non-empty when the persisted representation of the point is
// itself inconsistent (missing code, code that is not the encoding of the
// stored vector).
func (o *vecOracle) dist(query []float32, id uuid.UUID, vec []float32) (d model.Dist, problem string) {
	switch o.mode {
	case "float":
		return model.Metric(o.floatName, query, vec), ""
	case "bits":
		qb := o.thresholdBits(query)
		node, ok := o.nodeOf[id]
		if !ok {
			return model.Dist{}, "point has no node id"
		}
		code, has := o.graph.Codes[node]
		if !has {
			return model.Dist{}, fmt.Sprintf("node %d has no persisted binary code although the quantiser is trained", node)
		}
		// Which slot of which word holds the bit of dimension i is the codec's business (the statement
		// fixes distances, not layouts; a negative control spread the bits round-robin over the words).
		// Independent of the layout: the code has room for every dimension, and exactly as many bits are
		// set as the stored vector has components above the threshold - padding slots included, so
		// they contribute nothing. The expected distance is computed from the vectors themselves.
		want := o.thresholdBits(vec)
		words := sx.Words(code)
		set, wantSet := 0, 0
		for _, w := range words {
			set += bits.OnesCount64(w)
		}
		for _, b := range want {
			if b {
				wantSet++
			}
		}
		if len(words)*64 < o.dim {
			problem = fmt.Sprintf("node %d: persisted binary code has %d bits for %d dimensions", node, len(words)*64, o.dim)
		} else if set != wantSet {
			problem = fmt.Sprintf("node %d: persisted binary code has %d bits set, the stored vector has %d components above the threshold", node, set, wantSet)
		}
		pb := want
		return model.BitMetric(o.bitMetric, qb, pb), problem
	case "pq":
		node, ok := o.nodeOf[id]
		if !ok {
			return model.Dist{}, "point has no node id"
		}
		code, has := o.graph.Codes[node]
		if !has || len(code) != o.numSub {
			return model.Dist{}, fmt.Sprintf("node %d has no persisted product code (len %d) although the quantiser is trained", node, len(code))
		}
		var total model.Dist
		for i := 0; i < o.numSub; i++ {
			c := int(code[i])
			if c >= o.numCentroids {
				return model.Dist{}, fmt.Sprintf("node %d: centroid id %d out of range", node, c)
			}
			start := i*o.numCentroids*o.subLen + c*o.subLen
			sub := model.Metric(o.pqMetric, query[i*o.subLen:(i+1)*o.subLen], o.centroids[start:start+o.subLen])
			if o.pqMetric == models.DistanceCosine {
				panic("unreachable")
			}
			total.V += sub.V
			total.S += sub.S + math.Abs(sub.V)
		}
		total.N = o.dim + o.numSub
		return total, ""
	}
	panic("bad mode")
}

// candidates lists live points with the field (and inside filter) with their
// expected distances, sorted ascending.
func (o *vecOracle) candidates(m *model.Model, query []float32, filter map[uuid.UUID]bool) ([]model.Cand, []string) {
	problems := append([]string{}, o.notes...)
	cands := m.Candidates(o.prop, o.dim, filter, func(id uuid.UUID, v []float32) model.Dist {
		d, p := o.dist(query, id, v)
		if p != "" && len(problems) < 5 {
			problems = append(problems, p)
		}
		return d
	})
	return cands, problems
}

func f32(p *float32) string {
	if p == nil {
		return "nil"
	}
	return fmt.Sprintf("%g", *p)
}

// checkRanked verifies the universal per-result invariants of a vector
// search and, when exact is true, that the answer is the exact top-k.
// It returns a list of problems (kind, message).
func checkRanked(hits []sx.Hit, cands []model.Cand, limit int, weight float32, exact bool) []problem {
	var out []problem
	add := func(kind, format string, a ...any) {
		if len(out) < 8 {
			out = append(out, problem{kind, fmt.Sprintf(format, a...)})
		}
	}
	ref := map[uuid.UUID]model.Dist{}
	for _, c := range cands {
		ref[c.Id] = c.Dist
	}
	if len(hits) > limit {
		add("over-limit", "%d results for limit %d", len(hits), limit)
	}
	seen := map[uuid.UUID]bool{}
	for i, h := range hits {
		if seen[h.Id] {
			add("duplicate", "point %s returned twice", h.Id)
		}
		seen[h.Id] = true
		r, ok := ref[h.Id]
		if !ok {
			add("not-a-candidate", "result %d (%s, distance %s) is not a live point carrying the vector field inside the filter", i, h.Id, f32(h.Distance))
			continue
		}
		if h.Distance == nil {
			add("no-distance", "result %d (%s) carries no distance", i, h.Id)
			continue
		}
		got := float64(*h.Distance)
		if math.IsNaN(got) || math.Abs(got-r.V) > r.Bound() {
			add("wrong-distance", "result %d (%s): reported distance %g, index distance recomputed from the stored vector is %g (tolerance %g)", i, h.Id, got, r.V, r.Bound())
		}
		wantH := -1 * weight * *h.Distance
		if !closeF32(h.Hybrid, wantH) {
			add("wrong-hybrid", "result %d (%s): hybrid score %g, expected -weight*distance = -(%g*%g) = %g", i, h.Id, h.Hybrid, weight, *h.Distance, wantH)
		}
		if i > 0 && hits[i-1].Distance != nil && *hits[i-1].Distance > *h.Distance {
			add("order", "results %d,%d out of order: distances %g > %g", i-1, i, *hits[i-1].Distance, *h.Distance)
		}
	}
	if exact {
		wantN := min(limit, len(cands))
		if len(hits) < wantN {
			add("too-few", "%d results, but %d candidates exist for limit %d", len(hits), len(cands), limit)
		}
		if len(hits) > 0 && len(hits) >= wantN {
			last := hits[len(hits)-1]
			lr, ok := ref[last.Id]
			if ok {
				for _, c := range cands {
					if seen[c.Id] {
						continue
					}
					if c.Dist.V+c.Dist.Bound() < lr.V-lr.Bound() {
						add("not-nearest", "candidate %s at distance %g is closer than the last returned result %s at %g but was not returned (limit %d, %d candidates)", c.Id, c.Dist.V, last.Id, lr.V, limit, len(cands))
						break
					}
				}
			}
		}
	}
	return out
}

func closeF32(a, b float32) bool {
	if a == b {
		return true
	}
	if math.IsNaN(float64(a)) || math.IsNaN(float64(b)) {
		return false
	}
	diff := math.Abs(float64(a) - float64(b))
	scale := math.Max(math.Abs(float64(a)), math.Abs(float64(b)))
	return diff <= scale*math.Ldexp(1, -22)+math.Ldexp(1, -140)
}

// trainWatch judges WHEN a learned quantiser (binary without a fixed threshold, product) becomes
// trained. The store counts its items at the end of every write that touches the index and trains
// once the count has reached the configured trigger; the count is a function of the committed
// history (live points carrying the vector field, plus the entry node of a graph index), never of
// how often a vector was rewritten or of which items happen to be cached. Two sound rules:
//
//	early: a trained quantiser is observed although no successful batch so far ended (or began) with
//	       count + entry >= trigger;
//	late:  a successful batch that touched the index left at least `trigger` vectors (insert), or
//	       began and ended with at least that many (update / delete), and the quantiser is still
//	       untrained.
type trainWatch struct {
	learned  bool
	trigger  int
	entry    int
	upperMet bool
	lowerMet bool
	prop     string
	dim      int
}

func newTrainWatch(prop string, sv models.IndexSchemaValue) *trainWatch {
	dim, metric, q := gen.VectorParams(sv)
	w := &trainWatch{prop: prop, dim: dim}
	if sv.Type == models.IndexTypeVectorVamana {
		w.entry = 1
	}
	if q == nil || metric == models.DistanceHamming || metric == models.DistanceJaccard {
		return w
	}
	switch q.Type {
	case models.QuantizerBinary:
		if q.Binary != nil && q.Binary.Threshold == nil {
			w.learned, w.trigger = true, q.Binary.TriggerThreshold
		}
	case models.QuantizerProduct:
		if q.Product != nil {
			w.learned, w.trigger = true, q.Product.TriggerThreshold
		}
	}
	return w
}

func hasVec(d model.Doc, prop string, dim int) bool {
	if d == nil {
		return false
	}
	v, ok := model.AsVector(d, prop)
	return ok && len(v) == dim
}

// step is called after every batch with the model before and after it.
func (w *trainWatch) step(res *fw.CaseResult, tag string, before, after *model.Model, op gen.Op, succeeded, trained bool, step int) {
	if !w.learned {
		return
	}
	if succeeded {
		nb, na := countWithVector(before, w.prop, w.dim), countWithVector(after, w.prop, w.dim)
		touched := false
		for _, p := range op.Points {
			if hasVec(before.Docs[p.Id], w.prop, w.dim) || hasVec(after.Docs[p.Id], w.prop, w.dim) {
				touched = true
			}
		}
		for _, id := range op.Ids {
			if hasVec(before.Docs[id], w.prop, w.dim) {
				touched = true
			}
		}
		if max(nb, na)+w.entry >= w.trigger {
			w.upperMet = true
		}
		lower := min(nb, na)
		if op.Kind == gen.OpInsert {
			lower = na
		}
		if touched && lower >= w.trigger {
			w.lowerMet = true
		}
		res.Stat("quantiser_training_observations", 1)
	}
	if trained && !w.upperMet {
		res.Violate("quantiser-trained-early", tag+":trained-early", fmt.Sprintf("step %d: the quantiser of %q is trained (parameters persisted) although no successful batch so far began or ended with %d stored vectors (trigger threshold); the index now holds %d", step, w.prop, w.trigger, countWithVector(after, w.prop, w.dim)), nil)
		w.upperMet = true // report once
	}
	if !trained && w.lowerMet {
		res.Violate("quantiser-not-trained", tag+":trained-late", fmt.Sprintf("step %d: a successful batch touching %q left at least %d stored vectors (trigger threshold) but the quantiser is still untrained", step, w.prop, w.trigger), nil)
		w.lowerMet = false
	}
}
