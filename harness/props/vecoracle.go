package props

import (
	"fmt"
	"math"

	"github.com/google/uuid"
	"github.com/semafind/semadb/models"
	"semaverif/gen"
	"semaverif/model"
	"semaverif/sx"
)

// vecOracle recomputes "the index's distance" for one vector index from the
// configured metric and, once a quantiser has been trained, from the persisted
// quantiser parameters and the persisted code of each point (DESIGN C03/C04).
type vecOracle struct {
	prop   string
	bucket string
	dim    int
	metric string
	quant  *models.Quantizer
	// effective mode
	mode      string // "float" | "bits" | "pq"
	bitMetric string
	floatName string // metric used in float mode
	threshold []float32
	fixedThr  *float32
	// pq
	centroids    []float32
	numCentroids int
	numSub       int
	subLen       int
	pqMetric     string
	// per point
	nodeOf map[uuid.UUID]uint64
	idOf   map[uint64]uuid.UUID
	graph  *sx.GraphView
	notes  []string
}

func indexBucket(prop string, sv models.IndexSchemaValue) string {
	return fmt.Sprintf("index/%s/%s", sv.Type, prop)
}

func newVecOracle(d *sx.Dump, prop string, sv models.IndexSchemaValue) *vecOracle {
	dim, metric, q := gen.VectorParams(sv)
	o := &vecOracle{prop: prop, bucket: indexBucket(prop, sv), dim: dim, metric: metric, quant: q, mode: "float", floatName: metric}
	pv := d.Points()
	o.nodeOf = pv.IdToNode
	o.idOf = pv.NodeToId
	o.graph = d.Graph(o.bucket)
	if metric == models.DistanceHamming || metric == models.DistanceJaccard {
		thr := float32(0.5)
		o.mode, o.bitMetric, o.fixedThr = "bits", metric, &thr
		return o
	}
	if q == nil || q.Type == models.QuantizerNone {
		return o
	}
	switch q.Type {
	case models.QuantizerBinary:
		o.bitMetric = q.Binary.DistanceMetric
		if q.Binary.Threshold != nil {
			o.mode, o.fixedThr = "bits", q.Binary.Threshold
			return o
		}
		if tb, ok := o.graph.Other["_binaryQuantizerThreshold"]; ok {
			o.mode = "bits"
			o.threshold = sx.Floats(tb)
		}
	case models.QuantizerProduct:
		o.pqMetric = metric
		if metric == models.DistanceCosine {
			o.pqMetric = models.DistanceEuclidean
			// the product quantiser replaces cosine by euclidean from the start
			o.floatName = models.DistanceEuclidean
		}
		o.numCentroids, o.numSub = q.Product.NumCentroids, q.Product.NumSubVectors
		o.subLen = dim / o.numSub
		if cb, ok := o.graph.Other["_productQuantizerFlatCentroids"]; ok {
			o.mode = "pq"
			o.centroids = sx.Floats(cb)
		}
	}
	return o
}

func (o *vecOracle) trained() bool { return o.mode != "float" }

func (o *vecOracle) thresholdBits(v []float32) []bool {
	if o.fixedThr != nil {
		return model.Threshold(v, nil, *o.fixedThr)
	}
	return model.Threshold(v, o.threshold, 0)
}

// dist is the expected reported distance between query and the stored point.
// problem is non-empty when the persisted representation of the point is
// itself inconsistent (missing code, code that is not the encoding of the
// stored vector).
func (o *vecOracle) dist(query []float32, id uuid.UUID, vec []float32) (d model.Dist, problem string) {
	switch o.mode {
	case "float":
		return model.Metric(o.floatName, query, vec), ""
	case "bits":
		qb := o.thresholdBits(query)
		node, ok := o.nodeOf[id]
		if !ok {
			return model.Dist{}, "point has no node id"
		}
		code, has := o.graph.Codes[node]
		if !has {
			return model.Dist{}, fmt.Sprintf("node %d has no persisted binary code although the quantiser is trained", node)
		}
		pb := model.BitsFromWords(sx.Words(code), o.dim)
		want := o.thresholdBits(vec)
		for i := range pb {
			if pb[i] != want[i] {
				problem = fmt.Sprintf("node %d: persisted bit %d is %v but vector value %g vs threshold gives %v", node, i, pb[i], vec[i], want[i])
				break
			}
		}
		// padding bits must be zero
		words := sx.Words(code)
		for i := o.dim; i < len(words)*64; i++ {
			if words[i/64]&(1<<(uint(i)%64)) != 0 {
				problem = fmt.Sprintf("node %d: padding bit %d is set", node, i)
				break
			}
		}
		return model.BitMetric(o.bitMetric, qb, pb), problem
	case "pq":
		node, ok := o.nodeOf[id]
		if !ok {
			return model.Dist{}, "point has no node id"
		}
		code, has := o.graph.Codes[node]
		if !has || len(code) != o.numSub {
			return model.Dist{}, fmt.Sprintf("node %d has no persisted product code (len %d) although the quantiser is trained", node, len(code))
		}
		var total model.Dist
		for i := 0; i < o.numSub; i++ {
			c := int(code[i])
			if c >= o.numCentroids {
				return model.Dist{}, fmt.Sprintf("node %d: centroid id %d out of range", node, c)
			}
			start := i*o.numCentroids*o.subLen + c*o.subLen
			sub := model.Metric(o.pqMetric, query[i*o.subLen:(i+1)*o.subLen], o.centroids[start:start+o.subLen])
			if o.pqMetric == models.DistanceCosine {
				panic("unreachable")
			}
			total.V += sub.V
			total.S += sub.S + math.Abs(sub.V)
		}
		total.N = o.dim + o.numSub
		return total, ""
	}
	panic("bad mode")
}

// candidates lists live points with the field (and inside filter) with their
// expected distances, sorted ascending.
func (o *vecOracle) candidates(m *model.Model, query []float32, filter map[uuid.UUID]bool) ([]model.Cand, []string) {
	var problems []string
	cands := m.Candidates(o.prop, o.dim, filter, func(id uuid.UUID, v []float32) model.Dist {
		d, p := o.dist(query, id, v)
		if p != "" && len(problems) < 5 {
			problems = append(problems, p)
		}
		return d
	})
	return cands, problems
}

func f32(p *float32) string {
	if p == nil {
		return "nil"
	}
	return fmt.Sprintf("%g", *p)
}

// checkRanked verifies the universal per-result invariants of a vector
// search and, when exact is true, that the answer is the exact top-k.
// It returns a list of problems (kind, message).
func checkRanked(hits []sx.Hit, cands []model.Cand, limit int, weight float32, exact bool) []problem {
	var out []problem
	add := func(kind, format string, a ...any) {
		if len(out) < 8 {
			out = append(out, problem{kind, fmt.Sprintf(format, a...)})
		}
	}
	ref := map[uuid.UUID]model.Dist{}
	for _, c := range cands {
		ref[c.Id] = c.Dist
	}
	if len(hits) > limit {
		add("over-limit", "%d results for limit %d", len(hits), limit)
	}
	seen := map[uuid.UUID]bool{}
	for i, h := range hits {
		if seen[h.Id] {
			add("duplicate", "point %s returned twice", h.Id)
		}
		seen[h.Id] = true
		r, ok := ref[h.Id]
		if !ok {
			add("not-a-candidate", "result %d (%s, distance %s) is not a live point carrying the vector field inside the filter", i, h.Id, f32(h.Distance))
			continue
		}
		if h.Distance == nil {
			add("no-distance", "result %d (%s) carries no distance", i, h.Id)
			continue
		}
		got := float64(*h.Distance)
		if math.IsNaN(got) || math.Abs(got-r.V) > r.Bound() {
			add("wrong-distance", "result %d (%s): reported distance %g, index distance recomputed from the stored vector is %g (tolerance %g)", i, h.Id, got, r.V, r.Bound())
		}
		wantH := -1 * weight * *h.Distance
		if !closeF32(h.Hybrid, wantH) {
			add("wrong-hybrid", "result %d (%s): hybrid score %g, expected -weight*distance = -(%g*%g) = %g", i, h.Id, h.Hybrid, weight, *h.Distance, wantH)
		}
		if i > 0 && hits[i-1].Distance != nil && *hits[i-1].Distance > *h.Distance {
			add("order", "results %d,%d out of order: distances %g > %g", i-1, i, *hits[i-1].Distance, *h.Distance)
		}
	}
	if exact {
		wantN := min(limit, len(cands))
		if len(hits) < wantN {
			add("too-few", "%d results, but %d candidates exist for limit %d", len(hits), len(cands), limit)
		}
		if len(hits) > 0 && len(hits) >= wantN {
			last := hits[len(hits)-1]
			lr, ok := ref[last.Id]
			if ok {
				for _, c := range cands {
					if seen[c.Id] {
						continue
					}
					if c.Dist.V+c.Dist.Bound() < lr.V-lr.Bound() {
						add("not-nearest", "candidate %s at distance %g is closer than the last returned result %s at %g but was not returned (limit %d, %d candidates)", c.Id, c.Dist.V, last.Id, lr.V, limit, len(cands))
						break
					}
				}
			}
		}
	}
	return out
}

func closeF32(a, b float32) bool {
	if a == b {
		return true
	}
	if math.IsNaN(float64(a)) || math.IsNaN(float64(b)) {
		return false
	}
	diff := math.Abs(float64(a) - float64(b))
	scale := math.Max(math.Abs(float64(a)), math.Abs(float64(b)))
	return diff <= scale*math.Ldexp(1, -22)+math.Ldexp(1, -140)
}
