// Package httpx starts real semadb nodes (cluster node + RPC server + HTTP API)
// inside the worker process on loopback ports and provides a small client.
package httpx

import (
	"bytes"
	"context"
	"encoding/json"
	"fmt"
	"io"
	"net"
	"net/http"
	"os"
	"path/filepath"
	"semaverif/fw"
	"strings"
	"sync"
	"sync/atomic"
	"syscall"
	"time"

	"github.com/rs/zerolog"
	"github.com/rs/zerolog/log"
	"github.com/semafind/semadb/cluster"
	"github.com/semafind/semadb/httpapi"
	"github.com/semafind/semadb/models"
	"github.com/vmihailenco/msgpack/v5"
)

// LogSink captures semadb's log output so that "panic recovered" lines and
// error lines can be observed.
type LogSink struct {
	mu        sync.Mutex
	Panics    atomic.Int64
	LastPanic string
	lastStack string
	Errors    atomic.Int64
	recent    []string
}

func (s *LogSink) Write(p []byte) (int, error) {
	line := string(p)
	if strings.Contains(line, "panic recovered") {
		s.Panics.Add(1)
		s.mu.Lock()
		s.LastPanic = line
		s.mu.Unlock()
	}
	if strings.Contains(line, "stack trace") {
		s.mu.Lock()
		s.lastStack = line
		s.mu.Unlock()
	}
	if strings.Contains(line, `"level":"fatal"`) {
		os.Stderr.WriteString("SEMADB-FATAL " + line)
	}
	if strings.Contains(line, `"level":"error"`) {
		s.Errors.Add(1)
	}
	s.mu.Lock()
	s.recent = append(s.recent, line)
	if len(s.recent) > 30 {
		s.recent = s.recent[len(s.recent)-30:]
	}
	s.mu.Unlock()
	return len(p), nil
}

func (s *LogSink) Snapshot() (panicLine, stack string) {
	s.mu.Lock()
	defer s.mu.Unlock()
	st := s.lastStack
	if len(st) > 3000 {
		st = st[:3000]
	}
	return s.LastPanic, st
}

// Recent returns the last log lines (error level and above).
func (s *LogSink) Recent() []string {
	s.mu.Lock()
	defer s.mu.Unlock()
	return append([]string{}, s.recent...)
}

var Sink = &LogSink{}

// InstallSink routes the global zerolog logger into Sink. Must be called before nodes are created.
func InstallSink() {
	zerolog.SetGlobalLevel(zerolog.ErrorLevel)
	log.Logger = zerolog.New(Sink).With().Timestamp().Logger()
}

type Node struct {
	CN       *cluster.ClusterNode
	HTTP     *http.Server
	HTTPAddr string
	RPCAddr  string
	Dir      string
	Cfg      cluster.ClusterNodeConfig
	stopped  bool
}

var portCursor atomic.Int64

var (
	portWindowOnce sync.Once
	portWindowBase int
	portWindowErr  error
)

// claimPortWindow reserves a 64-port window for this worker process. Windows are claimed through lock
// files (O_EXCL, holding the owner's pid) so that neither the parallel workers of one run nor the
// workers of ANOTHER check invocation running at the same time on this machine can end up with the
// same ports: two deployments sharing a port would quietly talk to each other (a node of one run
// would hand its shards to a node of the other). A lock whose owner has died is taken over.
func claimPortWindow() (int, error) {
	portWindowOnce.Do(func() {
		idx := 0
		fmt.Sscanf(os.Getenv("VERIF_CASE_IDX"), "%d", &idx)
		dir := filepath.Join(os.TempDir(), "semaverif-portlocks")
		os.MkdirAll(dir, 0o777)
		const windows = 340
		for k := 0; k < windows; k++ {
			w := (idx + k*7) % windows
			lock := filepath.Join(dir, fmt.Sprintf("w%03d", w))
			for attempt := 0; attempt < 2; attempt++ {
				f, err := os.OpenFile(lock, os.O_CREATE|os.O_EXCL|os.O_WRONLY, 0o666)
				if err == nil {
					fmt.Fprintf(f, "%d", os.Getpid())
					f.Close()
					// below the kernel's ephemeral range (32768..60999): an outgoing RPC connection
					// of any worker must not be able to occupy a port a node wants to listen on
					portWindowBase = 10048 + w*64
					fw.AtWorkerExit = append(fw.AtWorkerExit, func() { os.Remove(lock) })
					return
				}
				// held: by a live process?
				data, rerr := os.ReadFile(lock)
				pid := 0
				fmt.Sscanf(string(data), "%d", &pid)
				if rerr == nil && pid > 0 && syscall.Kill(pid, 0) == nil {
					break // alive, try the next window
				}
				if rerr == nil && pid == 0 {
					// just created, pid not written yet: treat as alive
					if st, serr := os.Stat(lock); serr == nil && time.Since(st.ModTime()) < 5*time.Second {
						break
					}
				}
				os.Remove(lock) // stale, take it over
			}
		}
		if portWindowBase == 0 {
			portWindowErr = fmt.Errorf("no free port window (all %d claimed)", windows)
		}
	})
	return portWindowBase, portWindowErr
}

// FreePorts returns n loopback ports from a window private to this worker process (the
// parent runs workers in parallel; asking the kernel for port 0 and closing the
// listener lets two workers pick the same port).
func FreePorts(n int) ([]int, error) {
	base, err := claimPortWindow()
	if err != nil {
		return nil, err
	}
	ports := make([]int, 0, n)
	for tries := 0; len(ports) < n && tries < 64; tries++ {
		p := base + int(portCursor.Add(1)-1)%64
		l, err := net.Listen("tcp", fmt.Sprintf("127.0.0.1:%d", p))
		if err != nil {
			continue
		}
		l.Close()
		ports = append(ports, p)
	}
	if len(ports) < n {
		return nil, fmt.Errorf("no free ports in range %d..%d", base, base+63)
	}
	return ports, nil
}

type Options struct {
	MaxShardPointCount int64
	MaxShardSize       int64
	Plans              map[string]models.UserPlan
	RpcTimeout         int
	ShardTimeout       int
	MaxCacheSize       int64 // 0 means unlimited here (-1 for the manager)
	MaxSearchLimit     int
}

func DefaultPlans() map[string]models.UserPlan {
	return map[string]models.UserPlan{
		"BASIC": {Name: "Basic", MaxCollections: 3, MaxCollectionPointCount: 100000, MaxPointSize: 4096},
		"SMALL": {Name: "Small", MaxCollections: 1, MaxCollectionPointCount: 50, MaxPointSize: 512},
	}
}

// StartCluster starts n nodes that know each other. serve=false skips RPC/HTTP servers.
func StartCluster(dir string, n int, o Options) ([]*Node, error) {
	ports, err := FreePorts(2 * n)
	if err != nil {
		return nil, err
	}
	servers := make([]string, n)
	for i := 0; i < n; i++ {
		servers[i] = fmt.Sprintf("localhost:%d", ports[i])
	}
	if o.MaxShardPointCount == 0 {
		o.MaxShardPointCount = 250000
	}
	if o.MaxShardSize == 0 {
		o.MaxShardSize = 1 << 31
	}
	if o.Plans == nil {
		o.Plans = DefaultPlans()
	}
	if o.RpcTimeout == 0 {
		o.RpcTimeout = 10
	}
	if o.ShardTimeout == 0 {
		o.ShardTimeout = 300
	}
	if o.MaxCacheSize == 0 {
		o.MaxCacheSize = -1
	}
	if o.MaxSearchLimit == 0 {
		o.MaxSearchLimit = 75
	}
	nodes := make([]*Node, n)
	for i := 0; i < n; i++ {
		nd, err := StartNode(filepath.Join(dir, fmt.Sprintf("node%d", i)), ports[i], ports[n+i], servers, o)
		if err != nil {
			for _, prev := range nodes[:i] {
				prev.Stop()
			}
			return nil, err
		}
		nodes[i] = nd
	}
	// wait until the RPC and HTTP servers answer
	for _, nd := range nodes {
		if err := waitTCP(nd.RPCAddr, 10*time.Second); err != nil {
			return nil, err
		}
		ok := false
		for t := 0; t < 200; t++ {
			resp, err := http.Get("http://" + nd.HTTPAddr + "/v2/ping")
			if err == nil {
				resp.Body.Close()
				ok = true
				break
			}
			time.Sleep(10 * time.Millisecond)
		}
		if !ok {
			return nil, fmt.Errorf("http server %s did not come up", nd.HTTPAddr)
		}
	}
	return nodes, nil
}

func StartNode(dir string, rpcPort, httpPort int, servers []string, o Options) (*Node, error) {
	cfg := cluster.ClusterNodeConfig{
		RootDir: dir, RpcHost: "localhost", RpcPort: rpcPort, RpcTimeout: o.RpcTimeout, RpcRetries: 1,
		Servers:            servers,
		ShardManager:       cluster.ShardManagerConfig{RootDir: dir, ShardTimeout: o.ShardTimeout, MaxCacheSize: o.MaxCacheSize},
		MaxShardSize:       o.MaxShardSize,
		MaxShardPointCount: o.MaxShardPointCount,
		MaxSearchLimit:     o.MaxSearchLimit,
	}
	cn, err := cluster.NewNode(cfg)
	if err != nil {
		return nil, err
	}
	if err := cn.Serve(); err != nil {
		return nil, err
	}
	hcfg := httpapi.HttpApiConfig{HttpHost: "127.0.0.1", HttpPort: httpPort, UserPlans: o.Plans}
	srv := httpapi.RunHTTPServer(cn, hcfg, nil)
	return &Node{CN: cn, HTTP: srv, HTTPAddr: fmt.Sprintf("127.0.0.1:%d", httpPort), RPCAddr: fmt.Sprintf("localhost:%d", rpcPort), Dir: dir, Cfg: cfg}, nil
}

// waitTCP waits until something accepts connections on addr.
func waitTCP(addr string, timeout time.Duration) error {
	deadline := time.Now().Add(timeout)
	for time.Now().Before(deadline) {
		c, err := net.DialTimeout("tcp", addr, time.Second)
		if err == nil {
			c.Close()
			return nil
		}
		time.Sleep(10 * time.Millisecond)
	}
	return fmt.Errorf("nothing listens on %s after %v", addr, timeout)
}

// Restart stops the node (if running) and starts it again on the same
// directories and ports, as a process restart would.
func (n *Node) Restart(plans map[string]models.UserPlan) error {
	n.Stop()
	cn, err := cluster.NewNode(n.Cfg)
	if err != nil {
		return err
	}
	if err := cn.Serve(); err != nil {
		return err
	}
	var port int
	fmt.Sscanf(n.HTTPAddr[strings.LastIndex(n.HTTPAddr, ":")+1:], "%d", &port)
	n.CN = cn
	n.HTTP = httpapi.RunHTTPServer(cn, httpapi.HttpApiConfig{HttpHost: "127.0.0.1", HttpPort: port, UserPlans: plans}, nil)
	n.stopped = false
	// Serve() starts the RPC listener in a goroutine: peers may only be used once it accepts
	if err := waitTCP(n.RPCAddr, 10*time.Second); err != nil {
		return err
	}
	for t := 0; t < 300; t++ {
		resp, err := http.Get("http://" + n.HTTPAddr + "/v2/ping")
		if err == nil {
			resp.Body.Close()
			return nil
		}
		time.Sleep(10 * time.Millisecond)
	}
	return fmt.Errorf("http server %s did not come back", n.HTTPAddr)
}

func (n *Node) Stop() {
	if n == nil || n.stopped {
		return
	}
	n.stopped = true
	ctx, cancel := context.WithTimeout(context.Background(), 5*time.Second)
	n.HTTP.Shutdown(ctx)
	cancel()
	n.CN.Close()
}

// ---------------------------------------------------------------------------

type Client struct {
	Base    string // http://host:port
	User    string
	Plan    string
	Msgpack bool
	HC      *http.Client
}

func NewClient(addr, user, plan string) *Client {
	return &Client{Base: "http://" + addr, User: user, Plan: plan, HC: &http.Client{Timeout: 60 * time.Second}}
}

type Response struct {
	Status int
	Body   []byte
	JSON   map[string]any
	Err    error
}

// Do sends a request; body may be nil, []byte (sent raw) or any value (encoded).
func (c *Client) Do(method, path string, body any) Response {
	var rd io.Reader
	ct := ""
	switch b := body.(type) {
	case nil:
	case []byte:
		rd = bytes.NewReader(b)
		ct = "application/json"
		if c.Msgpack {
			ct = "application/msgpack"
		}
	default:
		if c.Msgpack {
			var buf bytes.Buffer
			enc := msgpack.NewEncoder(&buf)
			enc.SetCustomStructTag("json")
			if err := enc.Encode(b); err != nil {
				return Response{Err: err}
			}
			rd = &buf
			ct = "application/msgpack"
		} else {
			bs, err := json.Marshal(b)
			if err != nil {
				return Response{Err: err}
			}
			rd = bytes.NewReader(bs)
			ct = "application/json"
		}
	}
	return c.DoRaw(method, path, rd, ct, nil)
}

func (c *Client) DoRaw(method, path string, rd io.Reader, contentType string, headers map[string]string) Response {
	req, err := http.NewRequest(method, c.Base+path, rd)
	if err != nil {
		return Response{Err: err}
	}
	if contentType != "" {
		req.Header.Set("Content-Type", contentType)
	}
	if c.User != "" {
		req.Header["X-User-Id"] = []string{c.User}
	}
	if c.Plan != "" {
		req.Header.Set("X-Plan-Id", c.Plan)
	}
	for k, v := range headers {
		req.Header[k] = []string{v}
	}
	resp, err := c.HC.Do(req)
	if err != nil {
		return Response{Err: err}
	}
	defer resp.Body.Close()
	b, _ := io.ReadAll(resp.Body)
	out := Response{Status: resp.StatusCode, Body: b}
	var m map[string]any
	if json.Unmarshal(b, &m) == nil {
		out.JSON = m
	}
	return out
}
