package httpx

import (
	"context"
	"encoding/json"
	"fmt"
	"net/http"
	"os"
	"os/exec"
	"os/signal"
	"path/filepath"
	"syscall"
	"time"

	"github.com/rs/zerolog"
	"github.com/rs/zerolog/log"
	"github.com/semafind/semadb/cluster"
	"github.com/semafind/semadb/httpapi"
	"github.com/semafind/semadb/models"
)

// NodeSpec is the configuration of one semadb node run as its own OS process
// (`semaverif node <spec.json>`), mirroring what main.go does.
type NodeSpec struct {
	Cluster  cluster.ClusterNodeConfig  `json:"cluster"`
	HTTPPort int                        `json:"httpPort"`
	Plans    map[string]models.UserPlan `json:"plans"`
}

// NodeMain is the entry point of the node process.
func NodeMain(args []string) int {
	data, err := os.ReadFile(args[0])
	if err != nil {
		fmt.Fprintln(os.Stderr, err)
		return 3
	}
	var spec NodeSpec
	if err := json.Unmarshal(data, &spec); err != nil {
		fmt.Fprintln(os.Stderr, err)
		return 3
	}
	zerolog.SetGlobalLevel(zerolog.InfoLevel)
	log.Logger = zerolog.New(os.Stderr).With().Timestamp().Logger()
	cn, err := cluster.NewNode(spec.Cluster)
	if err != nil {
		log.Fatal().Err(err).Msg("Failed to create cluster state")
	}
	if err := cn.Serve(); err != nil {
		log.Fatal().Err(err).Msg("Failed to start cluster node")
	}
	fmt.Fprintln(os.Stderr, "NODE-PHASE serving-rpc")
	if err := cn.Sync(); err != nil {
		log.Fatal().Err(err).Msg("Failed to sync cluster node")
	}
	fmt.Fprintln(os.Stderr, "NODE-PHASE synced")
	srv := httpapi.RunHTTPServer(cn, httpapi.HttpApiConfig{HttpHost: "127.0.0.1", HttpPort: spec.HTTPPort, UserPlans: spec.Plans}, nil)
	quit := make(chan os.Signal, 1)
	signal.Notify(quit, os.Interrupt, syscall.SIGTERM)
	<-quit
	ctx, cancel := context.WithTimeout(context.Background(), 20*time.Second)
	srv.Shutdown(ctx)
	cancel()
	cn.Close()
	fmt.Fprintln(os.Stderr, "NODE-PHASE closed")
	return 0
}

// ProcNode is the harness-side handle of a node process.
type ProcNode struct {
	Name     string
	Spec     NodeSpec
	SpecPath string
	LogPath  string
	HTTPAddr string
	RPCAddr  string
	Exe      string
	Env      []string
	cmd      *exec.Cmd
	done     chan struct{}
	exitErr  error
	starts   int
}

func NewProcNode(exe, dir, name string, spec NodeSpec) *ProcNode {
	os.MkdirAll(dir, 0o755)
	return &ProcNode{Name: name, Spec: spec, Exe: exe,
		SpecPath: filepath.Join(dir, name+".spec.json"), LogPath: filepath.Join(dir, name+".log"),
		HTTPAddr: fmt.Sprintf("127.0.0.1:%d", spec.HTTPPort), RPCAddr: fmt.Sprintf("%s:%d", spec.Cluster.RpcHost, spec.Cluster.RpcPort)}
}

// Start launches the process (appending to its log).
func (p *ProcNode) Start() error {
	data, _ := json.Marshal(p.Spec)
	if err := os.WriteFile(p.SpecPath, data, 0o644); err != nil {
		return err
	}
	lf, err := os.OpenFile(p.LogPath, os.O_CREATE|os.O_APPEND|os.O_WRONLY, 0o644)
	if err != nil {
		return err
	}
	p.starts++
	fmt.Fprintf(lf, "==== start %d of %s\n", p.starts, p.Name)
	cmd := exec.Command(p.Exe, "node", p.SpecPath)
	cmd.Stdout = lf
	cmd.Stderr = lf
	cmd.Env = append(os.Environ(), p.Env...)
	if err := cmd.Start(); err != nil {
		lf.Close()
		return err
	}
	p.cmd = cmd
	p.done = make(chan struct{})
	go func() {
		p.exitErr = cmd.Wait()
		lf.Close()
		close(p.done)
	}()
	return nil
}

// Running reports whether the process is still alive.
func (p *ProcNode) Running() bool {
	if p.done == nil {
		return false
	}
	select {
	case <-p.done:
		return false
	default:
		return true
	}
}

// WaitHTTP waits until the HTTP API answers, or the process exits.
func (p *ProcNode) WaitHTTP(timeout time.Duration) error {
	deadline := time.Now().Add(timeout)
	for time.Now().Before(deadline) {
		if !p.Running() {
			return fmt.Errorf("node %s exited during start-up: %v", p.Name, p.exitErr)
		}
		resp, err := http.Get("http://" + p.HTTPAddr + "/v2/ping")
		if err == nil {
			resp.Body.Close()
			return nil
		}
		time.Sleep(20 * time.Millisecond)
	}
	return fmt.Errorf("node %s: http api not up after %v", p.Name, timeout)
}

func (p *ProcNode) Kill() {
	if p.cmd != nil && p.Running() {
		p.cmd.Process.Signal(syscall.SIGKILL)
		<-p.done
	}
}

// Term asks for a clean shutdown and waits for it.
func (p *ProcNode) Term(timeout time.Duration) error {
	if p.cmd == nil || !p.Running() {
		return nil
	}
	p.cmd.Process.Signal(syscall.SIGTERM)
	select {
	case <-p.done:
		return nil
	case <-time.After(timeout):
		p.Kill()
		return fmt.Errorf("node %s did not shut down within %v", p.Name, timeout)
	}
}

// Wait waits for the process to exit on its own.
func (p *ProcNode) Wait(timeout time.Duration) (exited bool, err error) {
	if p.done == nil {
		return true, nil
	}
	select {
	case <-p.done:
		return true, p.exitErr
	case <-time.After(timeout):
		return false, nil
	}
}

func (p *ProcNode) Log() string {
	b, _ := os.ReadFile(p.LogPath)
	return string(b)
}
