package sx

import "math"

func mathFloat32frombits(b uint32) float32 { return math.Float32frombits(b) }
