// Package sx drives a real shard.Shard: opening (file, memory, cache
// configurations), write batches from model points, searches with decoded
// answers, raw bucket dumps and cold reopen of a byte copy.
package sx

import (
	"encoding/binary"
	"fmt"
	"github.com/semafind/semadb/conversion"
	"io"
	"os"
	"sort"

	"github.com/google/uuid"
	"github.com/semafind/semadb/diskstore"
	"github.com/semafind/semadb/models"
	"github.com/semafind/semadb/shard"
	"github.com/semafind/semadb/shard/cache"
	"semaverif/model"
)

type Sx struct {
	Shard *shard.Shard
	Path  string
	Col   models.Collection
	CM    *cache.Manager
}

const DefaultMaxPointSize = 1 << 20

func Collection(schema models.IndexSchema, maxPointSize int) models.Collection {
	if maxPointSize <= 0 {
		maxPointSize = DefaultMaxPointSize
	}
	return models.Collection{
		UserId: "verif", Id: "col", Replicas: 1,
		UserPlan:    models.UserPlan{Name: "verif", MaxCollections: 10, MaxCollectionPointCount: 1 << 40, MaxPointSize: maxPointSize},
		IndexSchema: schema,
	}
}

// Open opens (or creates) a shard. path "" selects the in-memory back end.
// cm nil makes the shard create its own disabled cache manager.
func Open(path string, schema models.IndexSchema, cm *cache.Manager, maxPointSize int) (*Sx, error) {
	col := Collection(schema, maxPointSize)
	s, err := shard.NewShard(path, col, cm)
	if err != nil {
		return nil, err
	}
	return &Sx{Shard: s, Path: path, Col: col, CM: cm}, nil
}

func (s *Sx) Close() error { return s.Shard.Close() }

func ToPoints(pts []model.Point) []models.Point {
	out := make([]models.Point, len(pts))
	for i, p := range pts {
		out[i] = models.Point{Id: p.Id, Data: model.Encode(p.Doc)}
	}
	return out
}

func (s *Sx) Insert(pts []model.Point) error { return s.Shard.InsertPoints(ToPoints(pts)) }

func (s *Sx) Update(pts []model.Point) ([]uuid.UUID, error) {
	return s.Shard.UpdatePoints(ToPoints(pts))
}

func (s *Sx) Delete(ids []uuid.UUID) ([]uuid.UUID, error) {
	set := make(map[uuid.UUID]struct{}, len(ids))
	for _, id := range ids {
		set[id] = struct{}{}
	}
	return s.Shard.DeletePoints(set)
}

func (s *Sx) PointCount() (uint64, error) {
	si, err := s.Shard.Info()
	return si.PointCount, err
}

// Hit is a decoded search result.
type Hit struct {
	Id       uuid.UUID
	Distance *float32
	Score    *float32
	Hybrid   float32
	// Doc is the full document when the request selected "*" (decoded from
	// the raw bytes), or the selected sub-document; nil when nothing was
	// selected.
	Doc       model.Doc
	DecodeErr string
	RawLen    int
}

func (s *Sx) Search(req models.SearchRequest) ([]Hit, error) {
	rs, err := s.Shard.SearchPoints(req)
	if err != nil {
		return nil, err
	}
	return DecodeResults(rs), nil
}

func DecodeResults(rs []models.SearchResult) []Hit {
	hits := make([]Hit, len(rs))
	for i, r := range rs {
		h := Hit{Id: r.Point.Id, Hybrid: r.HybridScore, RawLen: len(r.Point.Data)}
		if r.Distance != nil {
			d := *r.Distance
			h.Distance = &d
		}
		if r.Score != nil {
			sc := *r.Score
			h.Score = &sc
		}
		if r.DecodedData != nil {
			h.Doc = model.Doc(r.DecodedData)
		} else if len(r.Point.Data) > 0 {
			d, err := model.Decode(r.Point.Data)
			if err != nil {
				h.DecodeErr = err.Error()
			} else {
				h.Doc = d
			}
		}
		hits[i] = h
	}
	return hits
}

// GetDocs reads documents by id through the search API (select *), in
// chunks of at most 100 ids.
func (s *Sx) GetDocs(ids []uuid.UUID) (map[uuid.UUID]model.Doc, error) {
	out := map[uuid.UUID]model.Doc{}
	for i := 0; i < len(ids); i += 100 {
		chunk := ids[i:min(i+100, len(ids))]
		strs := make([]string, len(chunk))
		for j, id := range chunk {
			strs[j] = id.String()
		}
		req := models.SearchRequest{
			Query:  models.Query{Property: "_id", StringArray: &models.SearchStringArrayOptions{Value: strs, Operator: models.OperatorContainsAny}},
			Select: []string{"*"},
			Limit:  100,
		}
		hits, err := s.Search(req)
		if err != nil {
			return nil, err
		}
		for _, h := range hits {
			if h.DecodeErr != "" {
				return nil, fmt.Errorf("document of %s does not decode: %s", h.Id, h.DecodeErr)
			}
			if _, dup := out[h.Id]; dup {
				return nil, fmt.Errorf("id %s returned twice by one _id read", h.Id)
			}
			d := h.Doc
			if d == nil {
				d = model.Doc{}
			}
			out[h.Id] = d
		}
	}
	return out, nil
}

// ---------------------------------------------------------------------------
// Raw dump

type Dump struct {
	Buckets map[string]map[string][]byte
}

func BucketNames(schema models.IndexSchema) []string {
	names := []string{"points", "internal"}
	for prop, sv := range schema {
		names = append(names, fmt.Sprintf("index/%s/%s", sv.Type, prop))
	}
	sort.Strings(names)
	return names
}

// DumpStore snapshots the known buckets through a read transaction.
func DumpStore(ds diskstore.DiskStore, schema models.IndexSchema) (*Dump, error) {
	d := &Dump{Buckets: map[string]map[string][]byte{}}
	err := ds.Read(func(bm diskstore.BucketManager) error {
		for _, name := range BucketNames(schema) {
			b, err := bm.Get(name)
			if err != nil {
				return err
			}
			m := map[string][]byte{}
			err = b.ForEach(func(k, v []byte) error {
				m[string(k)] = append([]byte(nil), v...)
				return nil
			})
			if err != nil {
				return err
			}
			d.Buckets[name] = m
		}
		return nil
	})
	return d, err
}

// Digest is a canonical rendering usable for equality of raw states.
func (d *Dump) Digest() uint64 {
	names := make([]string, 0, len(d.Buckets))
	for n := range d.Buckets {
		names = append(names, n)
	}
	sort.Strings(names)
	h := fnvNew()
	for _, n := range names {
		b := d.Buckets[n]
		if len(b) == 0 {
			continue // a missing bucket and an empty bucket are the same state
		}
		keys := make([]string, 0, len(b))
		for k := range b {
			keys = append(keys, k)
		}
		sort.Strings(keys)
		h.write([]byte(n))
		for _, k := range keys {
			h.write([]byte(k))
			h.write(b[k])
		}
	}
	return h.sum
}

type fnv struct{ sum uint64 }

func fnvNew() *fnv { return &fnv{sum: 14695981039346656037} }
func (f *fnv) write(b []byte) {
	var l [8]byte
	binary.LittleEndian.PutUint64(l[:], uint64(len(b)))
	for _, c := range l {
		f.sum ^= uint64(c)
		f.sum *= 1099511628211
	}
	for _, c := range b {
		f.sum ^= uint64(c)
		f.sum *= 1099511628211
	}
}

// Diff lists up to max differing keys between two dumps.
func (d *Dump) Diff(o *Dump, max int) []string {
	var out []string
	names := map[string]bool{}
	for n := range d.Buckets {
		names[n] = true
	}
	for n := range o.Buckets {
		names[n] = true
	}
	sorted := make([]string, 0, len(names))
	for n := range names {
		sorted = append(sorted, n)
	}
	sort.Strings(sorted)
	for _, n := range sorted {
		a, b := d.Buckets[n], o.Buckets[n]
		keys := map[string]bool{}
		for k := range a {
			keys[k] = true
		}
		for k := range b {
			keys[k] = true
		}
		ks := make([]string, 0, len(keys))
		for k := range keys {
			ks = append(ks, k)
		}
		sort.Strings(ks)
		for _, k := range ks {
			va, oka := a[k]
			vb, okb := b[k]
			if oka != okb || string(va) != string(vb) {
				if len(out) >= max {
					return append(out, "...")
				}
				out = append(out, fmt.Sprintf("%s[%q]: %s -> %s", n, k, short(va, oka), short(vb, okb)))
			}
		}
	}
	return out
}

func short(v []byte, ok bool) string {
	if !ok {
		return "<absent>"
	}
	if len(v) > 24 {
		return fmt.Sprintf("%x...(%d bytes)", v[:24], len(v))
	}
	return fmt.Sprintf("%x", v)
}

// CopyFile makes a byte copy of a shard file (taken at a quiescent point).
func CopyFile(src, dst string) error {
	in, err := os.Open(src)
	if err != nil {
		return err
	}
	defer in.Close()
	out, err := os.Create(dst)
	if err != nil {
		return err
	}
	if _, err := io.Copy(out, in); err != nil {
		out.Close()
		return err
	}
	return out.Close()
}

// ---------------------------------------------------------------------------
// Decoded views of the dump

type PointsView struct {
	NodeToId   map[uint64]uuid.UUID
	NodeToData map[uint64][]byte
	IdToNode   map[uuid.UUID]uint64
	Problems   []string
}

// The raw dump is decoded with the repository's own codec (package conversion): what a persisted key or
// value MEANS is defined by that codec, whose faithfulness is property C19's business. A change of the
// on-disk layout that keeps the codec faithful must not look like a corrupted store to the other checks.
func nodeKey(k string) (id uint64, suffix byte, ok bool) {
	if len(k) < 3 || k[0] != 'n' {
		return 0, 0, false
	}
	suffix = k[len(k)-1]
	id, ok = conversion.NodeIdFromKey([]byte(k), suffix)
	return id, suffix, ok
}

func (d *Dump) Points() *PointsView {
	pv := &PointsView{NodeToId: map[uint64]uuid.UUID{}, NodeToData: map[uint64][]byte{}, IdToNode: map[uuid.UUID]uint64{}}
	for k, v := range d.Buckets["points"] {
		if id, suf, ok := nodeKey(k); ok {
			switch suf {
			case 'i':
				u, err := uuid.FromBytes(v)
				if err != nil {
					pv.Problems = append(pv.Problems, fmt.Sprintf("node %d: id value %x is not a uuid", id, v))
					continue
				}
				pv.NodeToId[id] = u
			case 'd':
				pv.NodeToData[id] = v
			default:
				pv.Problems = append(pv.Problems, fmt.Sprintf("unexpected node key suffix %q for node %d", suf, id))
			}
			continue
		}
		if len(k) == 18 && k[0] == 'p' && k[17] == 'i' {
			var u uuid.UUID
			copy(u[:], k[1:17])
			if len(v) != 8 {
				pv.Problems = append(pv.Problems, fmt.Sprintf("point %s: node id value has %d bytes", u, len(v)))
				continue
			}
			pv.IdToNode[u] = conversion.BytesToUint64(v)
			continue
		}
		pv.Problems = append(pv.Problems, fmt.Sprintf("unrecognised key %x in points bucket", k))
	}
	return pv
}

type InternalView struct {
	PointCount    uint64
	HasPointCount bool
	FreeIds       []uint64
	NextFree      uint64
	HasNextFree   bool
}

func (d *Dump) Internal() InternalView {
	var iv InternalView
	b := d.Buckets["internal"]
	if v, ok := b["pointCount"]; ok && len(v) == 8 {
		iv.PointCount = conversion.BytesToUint64(v)
		iv.HasPointCount = true
	}
	if v, ok := b["nextFreeNodeId"]; ok && len(v) == 8 {
		iv.NextFree = conversion.BytesToUint64(v)
		iv.HasNextFree = true
	} else {
		iv.NextFree = 2
	}
	if v, ok := b["freeNodeIds"]; ok {
		iv.FreeIds = append(iv.FreeIds, conversion.BytesToEdgeList(v)...)
	}
	return iv
}

// GraphView decodes a vamana (or flat) index bucket.
type GraphView struct {
	Edges     map[uint64][]uint64
	Vectors   map[uint64][]float32
	Codes     map[uint64][]byte
	MaxNodeId uint64
	HasMax    bool
	Other     map[string][]byte
}

func (d *Dump) Graph(bucket string) *GraphView {
	g := &GraphView{Edges: map[uint64][]uint64{}, Vectors: map[uint64][]float32{}, Codes: map[uint64][]byte{}, Other: map[string][]byte{}}
	for k, v := range d.Buckets[bucket] {
		if id, suf, ok := nodeKey(k); ok {
			switch suf {
			case 'e':
				g.Edges[id] = append([]uint64{}, conversion.BytesToEdgeList(v)...)
			case 'v':
				g.Vectors[id] = Floats(v)
			case 'q':
				g.Codes[id] = v
			default:
				g.Other[k] = v
			}
			continue
		}
		if k == "_vamanaMaxNodeId" && len(v) == 8 {
			g.MaxNodeId = conversion.BytesToUint64(v)
			g.HasMax = true
			continue
		}
		g.Other[k] = v
	}
	return g
}

func Floats(v []byte) []float32 {
	if len(v) == 0 {
		return []float32{}
	}
	return append([]float32{}, conversion.BytesToFloat32(v)...)
}

func Words(v []byte) []uint64 {
	return append([]uint64{}, conversion.BytesToEdgeList(v)...)
}
