// Package gen holds the seeded generators: index schemas, hostile value
// pools, documents, id classes and write histories.
package gen

import (
	"fmt"
	"math"
	"math/rand/v2"
	"sort"
	"strings"

	"github.com/google/uuid"
	"github.com/semafind/semadb/models"
	"semaverif/model"
)

type G struct {
	R      *rand.Rand
	Schema models.IndexSchema
	// knobs
	PresentProb   float64 // probability that an indexed field is present in a generated document
	ExtraProb     float64 // probability of extra non-indexed fields
	AllowEmptyStr bool    // generate "" for string / stringArray indexed fields
	IntWidths     bool    // extras use compact integer widths like a msgpack client
	NoLattice     bool    // never draw vectors from the small integer lattice (which produces exact distance ties)
	Line          bool    // euclidean vectors lie on a line (sparse, chain-like graphs: pruning and re-connection paths)
	lineT         int
	Vocabulary    []string
	idCounter     uint64
	seedTag       uint64
}

func New(seed uint64, schema models.IndexSchema) *G {
	return &G{R: rand.New(rand.NewPCG(seed, 0x5eed)), Schema: schema, PresentProb: 0.8, ExtraProb: 0.5, Vocabulary: DefaultVocabulary, seedTag: seed}
}

// NewId returns a fresh, deterministic uuid.
func (g *G) NewId() uuid.UUID {
	g.idCounter++
	var u uuid.UUID
	a := g.R.Uint64()
	b := g.R.Uint64()
	for i := 0; i < 8; i++ {
		u[i] = byte(a >> (8 * i))
		u[8+i] = byte(b >> (8 * i))
	}
	u[6] = (u[6] & 0x0f) | 0x40
	u[8] = (u[8] & 0x3f) | 0x80
	return u
}

var IntPool = []int64{math.MinInt64, math.MinInt64 + 1, -1000, -2, -1, 0, 1, 2, 3, 7, 100, 255, 256, 1000, math.MaxInt64 - 1, math.MaxInt64}

var FloatPool = []float64{-math.MaxFloat64, -1e10, -2, -1.5, -1, -0.5, -2.2250738585072014e-308, -math.SmallestNonzeroFloat64, math.Copysign(0, -1), 0,
	math.SmallestNonzeroFloat64, 2.2250738585072014e-308, 0.1, 0.5, 1, 1.5, 2, 3.25, 1e10, math.MaxFloat64}

var StringPool = []string{"a", "A", "ab", "aB", "Ab", "AB", "abc", "abd", "b", "B", "ba", "z", "Z", "é", "É", "éa", "日本", "日本語", "a\x00", "a b", "0", "10", "9", "~", "apple", "Apple", "APPLE", "apple pie",
	// the largest code point, alone, repeated and followed by more: keys at the upper edge of every prefix range
	"ab\U0010FFFF", "ab\U0010FFFFz", "ab\U0010FFFF\U0010FFFF", "\U0010FFFF", "z\U0010FFFFa", "ab\uFFFD"}

var TagPool = []string{"red", "Red", "RED", "blue", "green", "a", "ab", "x", "tag1", "tag2", "Tag1"}

var DefaultVocabulary = []string{"the", "quick", "brown", "fox", "jumps", "over", "lazy", "dog", "Gandalf", "wizard", "grey", "Frodo", "ring", "and", "of", "a", "is", "to",
	"summer", "floral", "maxi", "dress", "résumé", "naïve", "日本語", "straße", "B2B", "e-mail", "hello", "world", "Hello", "WORLD", "42", "3.14", "it's", "rock'n'roll", "über", "x", "semadb", "vector", "search", "graph", "µm", "μm", "σοφός", "Kelvin", "ſeven", "seven"}

// Vector generates a vector suitable for the metric.
func (g *G) Vector(dim int, metric string) []float32 {
	v := make([]float32, dim)
	switch metric {
	case models.DistanceHamming, models.DistanceJaccard:
		for i := range v {
			if g.R.IntN(2) == 0 {
				v[i] = 1
			}
		}
	case models.DistanceHaversine:
		v[0] = g.R.Float32()*170 - 85
		v[1] = g.R.Float32()*350 - 175
	case models.DistanceCosine:
		var n float64
		for n == 0 {
			for i := range v {
				v[i] = float32(g.R.NormFloat64())
				n += float64(v[i]) * float64(v[i])
			}
		}
		for i := range v {
			v[i] = float32(float64(v[i]) / math.Sqrt(n))
		}
	default:
		if g.Line && metric == models.DistanceEuclidean {
			g.lineT++
			v[0] = float32(10 * (g.lineT % 400))
			if g.R.IntN(5) == 0 {
				v[0] = float32(10 * g.R.IntN(g.lineT+1)) // revisit an earlier stretch of the line
			}
			return v
		}
		lattice := g.R.IntN(8)
		if g.NoLattice {
			lattice = 1
		}
		switch lattice {
		case 0: // small integer lattice: produces exact ties
			for i := range v {
				v[i] = float32(g.R.IntN(3) - 1)
			}
		default:
			for i := range v {
				v[i] = g.R.Float32()*2 - 1
			}
		}
	}
	return v
}

func VectorParams(sv models.IndexSchemaValue) (dim int, metric string, q *models.Quantizer) {
	switch sv.Type {
	case models.IndexTypeVectorFlat:
		return int(sv.VectorFlat.VectorSize), sv.VectorFlat.DistanceMetric, sv.VectorFlat.Quantizer
	case models.IndexTypeVectorVamana:
		return int(sv.VectorVamana.VectorSize), sv.VectorVamana.DistanceMetric, sv.VectorVamana.Quantizer
	}
	return 0, "", nil
}

func (g *G) Text() string {
	switch g.R.IntN(12) {
	case 0:
		return "the and of a" // only stop words
	case 1:
		return "... !!! ---" // only punctuation
	case 2:
		return ""
	}
	n := 1 + g.R.IntN(9)
	parts := make([]string, n)
	for i := range parts {
		parts[i] = g.Vocabulary[g.R.IntN(len(g.Vocabulary))]
	}
	sep := " "
	if g.R.IntN(6) == 0 {
		sep = ", "
	}
	return strings.Join(parts, sep)
}

func (g *G) StringValue() string {
	if g.AllowEmptyStr && g.R.IntN(15) == 0 {
		return ""
	}
	return StringPool[g.R.IntN(len(StringPool))]
}

func (g *G) IntValue() int64 {
	if g.R.IntN(4) == 0 {
		return int64(g.R.IntN(21) - 10)
	}
	return IntPool[g.R.IntN(len(IntPool))]
}

func (g *G) FloatValue() float64 {
	if g.R.IntN(4) == 0 {
		return float64(g.R.IntN(41)-20) / 4
	}
	return FloatPool[g.R.IntN(len(FloatPool))]
}

func (g *G) Tags() []string {
	n := g.R.IntN(4)
	out := make([]string, n)
	for i := range out {
		out[i] = TagPool[g.R.IntN(len(TagPool))]
		if g.AllowEmptyStr && g.R.IntN(20) == 0 {
			out[i] = ""
		}
	}
	return out
}

// FieldValue generates a value of the type the index expects.
func (g *G) FieldValue(sv models.IndexSchemaValue) any {
	switch sv.Type {
	case models.IndexTypeVectorFlat, models.IndexTypeVectorVamana:
		dim, metric, _ := VectorParams(sv)
		return g.Vector(dim, metric)
	case models.IndexTypeText:
		return g.Text()
	case models.IndexTypeString:
		return g.StringValue()
	case models.IndexTypeInteger:
		return g.IntValue()
	case models.IndexTypeFloat:
		return g.FloatValue()
	case models.IndexTypeStringArray:
		return g.Tags()
	}
	panic("unknown index type " + sv.Type)
}

func (g *G) SortedProps() []string {
	props := make([]string, 0, len(g.Schema))
	for p := range g.Schema {
		props = append(props, p)
	}
	sort.Strings(props)
	return props
}

func setPath(d model.Doc, path string, v any) {
	segs := strings.Split(path, ".")
	cur := map[string]any(d)
	for i, s := range segs {
		if i == len(segs)-1 {
			cur[s] = v
			return
		}
		next, ok := cur[s].(map[string]any)
		if !ok {
			next = map[string]any{}
			cur[s] = next
		}
		cur = next
	}
}

func (g *G) extraValue(depth int) any {
	switch g.R.IntN(11) {
	case 0:
		return g.R.IntN(1000)
	case 1:
		return g.R.Float64()
	case 2:
		return StringPool[g.R.IntN(len(StringPool))]
	case 3:
		return g.R.IntN(2) == 0
	case 4:
		return nil
	case 5:
		if depth < 2 {
			m := map[string]any{}
			for i := 0; i < g.R.IntN(3); i++ {
				m[fmt.Sprintf("k%d", g.R.IntN(4))] = g.extraValue(depth + 1)
			}
			return m
		}
		return "deep"
	case 6:
		n := g.R.IntN(4)
		a := make([]any, n)
		for i := range a {
			a[i] = g.extraValue(depth + 1)
		}
		return a
	case 7:
		if g.IntWidths {
			return []any{int8(g.R.IntN(100)), int16(300 + g.R.IntN(100)), int32(70000 + g.R.IntN(10)), int64(g.R.IntN(10)), uint8(g.R.IntN(200)), uint16(40000)}[g.R.IntN(6)]
		}
		return int64(g.R.IntN(100000)) - 50000
	case 8:
		return []byte{1, 2, 3}
	case 9:
		return float32(g.R.Float32())
	default:
		return "_delete_not" // looks like the marker but is not
	}
}

// Doc generates a document for the schema.
func (g *G) Doc() model.Doc {
	d := model.Doc{}
	for _, p := range g.SortedProps() {
		if g.R.Float64() < g.PresentProb {
			setPath(d, p, g.FieldValue(g.Schema[p]))
		}
	}
	if g.R.Float64() < g.ExtraProb {
		n := 1 + g.R.IntN(3)
		for i := 0; i < n; i++ {
			k := []string{"x", "y", "note", "extra", "count", "info"}[g.R.IntN(6)]
			if _, clash := g.Schema[k]; clash {
				continue
			}
			d[k] = g.extraValue(0)
		}
		// a stored value that happens to be the literal removal marker of the update API: an insert
		// stores it like any other string, and only an update that names the field may remove it
		if g.R.IntN(12) == 0 {
			k := []string{"x", "note", "marker"}[g.R.IntN(3)]
			if _, clash := g.Schema[k]; !clash {
				if g.R.IntN(3) == 0 {
					d[k] = map[string]any{"inner": "_delete", "k0": g.R.IntN(9)}
				} else {
					d[k] = "_delete"
				}
			}
		}
	}
	if g.R.IntN(25) == 0 {
		return model.Doc{}
	}
	return d
}

// UpdateDoc generates an update: changes, additions and removals of indexed
// and extra fields. cur is the current document (may be nil for unknown ids).
func (g *G) UpdateDoc(cur model.Doc) model.Doc {
	u := model.Doc{}
	props := g.SortedProps()
	n := 1 + g.R.IntN(3)
	for i := 0; i < n; i++ {
		switch g.R.IntN(8) {
		case 7:
			// near rewrite of a stored text: the new text differs from the old one only by
			// letter case, by runes of one case-folding orbit (which the analyser may or may
			// not keep apart), or by spacing
			g.nearRewrite(cur, u, props)
		case 0, 1, 2: // change / add an indexed field
			if len(props) == 0 {
				continue
			}
			p := props[g.R.IntN(len(props))]
			top := strings.Split(p, ".")[0]
			if top == p {
				u[p] = g.FieldValue(g.Schema[p])
			} else {
				// nested property: the merge is shallow, so the parent map is replaced
				parent := map[string]any{}
				for _, q := range props {
					if strings.HasPrefix(q, top+".") && g.R.IntN(3) != 0 {
						setPath(model.Doc(map[string]any{top: parent}), q, g.FieldValue(g.Schema[q]))
					}
				}
				if g.R.IntN(4) == 0 {
					parent["other"] = g.extraValue(1)
				}
				u[top] = parent
			}
		case 3: // remove an indexed field (or its parent)
			if len(props) == 0 {
				continue
			}
			p := props[g.R.IntN(len(props))]
			u[strings.Split(p, ".")[0]] = model.DeleteValue
		case 4: // remove something that may be absent
			u[[]string{"x", "y", "note", "nope"}[g.R.IntN(4)]] = model.DeleteValue
		case 5:
			k := []string{"x", "y", "note", "extra"}[g.R.IntN(4)]
			if _, clash := g.Schema[k]; !clash {
				u[k] = g.extraValue(0)
			}
		case 6:
			// no-op field rewrite with the same value
			if cur != nil {
				for k, v := range cur {
					u[k] = model.Clone(v)
					break
				}
			}
		}
	}
	return u
}

// foldVariants maps a rune to another rune of its simple case-folding orbit that is not its
// upper or lower case counterpart (micro sign / greek mu, long s / s, final / medial sigma,
// kelvin sign / k, symbol variants of greek letters).
var foldVariants = map[rune]rune{'µ': 'μ', 'μ': 'µ', 's': 'ſ', 'ſ': 's', 'σ': 'ς', 'ς': 'σ', 'k': '\u212A', '\u212A': 'k',
	'β': 'ϐ', 'ϐ': 'β', 'θ': 'ϑ', 'ϑ': 'θ', 'φ': 'ϕ', 'ϕ': 'φ', 'π': 'ϖ', 'ϖ': 'π', 'å': '\u212B', '\u212B': 'å'}

func (g *G) nearRewrite(cur, u model.Doc, props []string) {
	if cur == nil {
		return
	}
	var cands []string
	for _, p := range props {
		if g.Schema[p].Type != models.IndexTypeText {
			continue
		}
		if v, ok := model.Lookup(cur, p); ok {
			if s, isStr := v.(string); isStr && s != "" {
				cands = append(cands, p)
			}
		}
	}
	if len(cands) == 0 {
		return
	}
	p := cands[g.R.IntN(len(cands))]
	v, _ := model.Lookup(cur, p)
	old := v.(string)
	var text string
	switch g.R.IntN(5) {
	case 0:
		text = strings.ToUpper(old)
	case 1:
		text = strings.ToLower(old)
	case 2:
		text = strings.Join(strings.Fields(old), "  ")
	default:
		// swap every rune that has a fold variant with probability 1/2, at least one if any
		rs := []rune(old)
		swapped := false
		for i, r := range rs {
			if w, ok := foldVariants[r]; ok && (g.R.IntN(2) == 0 || !swapped) {
				rs[i] = w
				swapped = true
			}
		}
		text = string(rs)
	}
	top := strings.Split(p, ".")[0]
	if top == p {
		u[p] = text
		return
	}
	// nested: the merge is shallow, so send the whole parent with the one value changed
	parent, ok := model.Clone(cur[top]).(map[string]any)
	if !ok {
		return
	}
	d := model.Doc(map[string]any{top: parent})
	setPath(d, p, text)
	u[top] = parent
}

// ---------------------------------------------------------------------------
// Histories

type OpKind string

const (
	OpInsert OpKind = "insert"
	OpUpdate OpKind = "update"
	OpDelete OpKind = "delete"
)

type Op struct {
	Kind   OpKind
	Points []model.Point // insert / update
	Ids    []uuid.UUID   // delete
	Tag    string        // what the generator intended (for coverage accounting)
}

func (o Op) Size() int {
	if o.Kind == OpDelete {
		return len(o.Ids)
	}
	return len(o.Points)
}

// History drives op generation against a model so that id classes (fresh,
// stored, deleted earlier, never stored, repeated) are all produced.
type History struct {
	G        *G
	Deleted  []uuid.UUID
	MaxBatch int
	// weights
	WInsert, WUpdate, WDelete int
	RejectProb                float64
	// BigProb is the probability of a large insert batch (520..BigMax points, several multiples of
	// any internal chunk or transaction size), half of them carrying an already stored or repeated id
	// at the first, a middle, a late (>= 512) or the last position.
	BigProb float64
	BigMax  int
}

func NewHistory(g *G) *History {
	return &History{G: g, MaxBatch: 40, WInsert: 5, WUpdate: 3, WDelete: 2, RejectProb: 0.15}
}

func (h *History) pickStored(m *model.Model) (uuid.UUID, bool) {
	if len(m.Docs) == 0 {
		return uuid.UUID{}, false
	}
	ids := m.SortedIds()
	return ids[h.G.R.IntN(len(ids))], true
}

func (h *History) pickDeleted(m *model.Model) (uuid.UUID, bool) {
	for tries := 0; tries < 5 && len(h.Deleted) > 0; tries++ {
		id := h.Deleted[h.G.R.IntN(len(h.Deleted))]
		if _, live := m.Docs[id]; !live {
			return id, true
		}
	}
	return uuid.UUID{}, false
}

func (h *History) batchSize() int {
	r := h.G.R
	switch r.IntN(10) {
	case 0:
		return 0
	case 1:
		return 1
	case 2:
		return h.MaxBatch
	}
	return 1 + r.IntN(h.MaxBatch)
}

// Next generates the next operation given the current model state.
func (h *History) Next(m *model.Model) Op {
	r := h.G.R
	w := r.IntN(h.WInsert + h.WUpdate + h.WDelete)
	if len(m.Docs) == 0 && r.IntN(4) != 0 {
		w = 0
	}
	n := h.batchSize()
	if h.BigProb > 0 && r.Float64() < h.BigProb {
		n = 520 + r.IntN(max(1, h.BigMax-520))
		op := Op{Kind: OpInsert, Tag: fmt.Sprintf("big-insert-%d", n)}
		for i := 0; i < n; i++ {
			op.Points = append(op.Points, model.Point{Id: h.G.NewId(), Doc: h.G.Doc()})
		}
		if r.IntN(2) == 0 {
			pos := []int{0, n / 2, 512 + r.IntN(n-512), n - 1}[r.IntN(4)]
			if sid, ok := h.pickStored(m); ok && r.IntN(3) != 0 {
				op.Points[pos].Id = sid
				op.Tag = fmt.Sprintf("big-insert-existing-id@%d/%d", pos, n)
			} else {
				other := (pos + 1 + r.IntN(n-1)) % n
				op.Points[pos].Id = op.Points[other].Id
				op.Tag = fmt.Sprintf("big-insert-duplicate@%d/%d", pos, n)
			}
		}
		return op
	}
	switch {
	case w < h.WInsert:
		op := Op{Kind: OpInsert, Tag: "insert-fresh"}
		used := map[uuid.UUID]bool{}
		for i := 0; i < n; i++ {
			var id uuid.UUID
			if did, ok := h.pickDeleted(m); ok && r.IntN(4) == 0 && !used[did] {
				id = did // re-insert of a previously deleted id
				op.Tag = "insert-reuse-deleted-id"
			} else {
				id = h.G.NewId()
			}
			used[id] = true
			op.Points = append(op.Points, model.Point{Id: id, Doc: h.G.Doc()})
		}
		if n > 0 && r.Float64() < h.RejectProb {
			pos := []int{0, n / 2, n - 1}[r.IntN(3)]
			if sid, ok := h.pickStored(m); ok && r.IntN(2) == 0 {
				op.Points[pos].Id = sid
				op.Tag = fmt.Sprintf("insert-existing-id@%d/%d", pos, n)
			} else if n >= 2 {
				other := (pos + 1 + r.IntN(n-1)) % n
				op.Points[pos].Id = op.Points[other].Id
				op.Tag = "insert-duplicate-in-batch"
			}
		}
		return op
	case w < h.WInsert+h.WUpdate:
		op := Op{Kind: OpUpdate, Tag: "update"}
		for i := 0; i < n; i++ {
			switch r.IntN(10) {
			case 0:
				op.Points = append(op.Points, model.Point{Id: h.G.NewId(), Doc: h.G.UpdateDoc(nil)}) // never stored
			case 1:
				if did, ok := h.pickDeleted(m); ok {
					op.Points = append(op.Points, model.Point{Id: did, Doc: h.G.UpdateDoc(nil)})
					continue
				}
				fallthrough
			default:
				if sid, ok := h.pickStored(m); ok {
					op.Points = append(op.Points, model.Point{Id: sid, Doc: h.G.UpdateDoc(m.Docs[sid])})
				}
			}
		}
		return op
	default:
		op := Op{Kind: OpDelete, Tag: "delete"}
		if len(m.Docs) > 0 && r.IntN(12) == 0 {
			op.Tag = "delete-all"
			op.Ids = m.SortedIds()
			return op
		}
		for i := 0; i < n; i++ {
			switch r.IntN(10) {
			case 0:
				op.Ids = append(op.Ids, h.G.NewId())
			case 1:
				if did, ok := h.pickDeleted(m); ok {
					op.Ids = append(op.Ids, did)
					continue
				}
				fallthrough
			default:
				if sid, ok := h.pickStored(m); ok {
					op.Ids = append(op.Ids, sid)
				}
			}
		}
		return op
	}
}

// Applied must be called after the model accepted the op.
func (h *History) Applied(op Op, deleted []uuid.UUID) {
	h.Deleted = append(h.Deleted, deleted...)
	if len(h.Deleted) > 400 {
		h.Deleted = h.Deleted[len(h.Deleted)-400:]
	}
}
