package gen

import (
	"github.com/semafind/semadb/models"
)

func Vamana(dim int, metric string, searchSize, degree int, alpha float32, q *models.Quantizer) models.IndexSchemaValue {
	return models.IndexSchemaValue{Type: models.IndexTypeVectorVamana, VectorVamana: &models.IndexVectorVamanaParameters{
		VectorSize: uint(dim), DistanceMetric: metric, SearchSize: searchSize, DegreeBound: degree, Alpha: alpha, Quantizer: q}}
}

func Flat(dim int, metric string, q *models.Quantizer) models.IndexSchemaValue {
	return models.IndexSchemaValue{Type: models.IndexTypeVectorFlat, VectorFlat: &models.IndexVectorFlatParameters{
		VectorSize: uint(dim), DistanceMetric: metric, Quantizer: q}}
}

func Text() models.IndexSchemaValue {
	return models.IndexSchemaValue{Type: models.IndexTypeText, Text: &models.IndexTextParameters{Analyser: "standard"}}
}

func Str(caseSensitive bool) models.IndexSchemaValue {
	return models.IndexSchemaValue{Type: models.IndexTypeString, String: &models.IndexStringParameters{CaseSensitive: caseSensitive}}
}

func StrArr(caseSensitive bool) models.IndexSchemaValue {
	return models.IndexSchemaValue{Type: models.IndexTypeStringArray, StringArray: &models.IndexStringArrayParameters{IndexStringParameters: models.IndexStringParameters{CaseSensitive: caseSensitive}}}
}

func Int() models.IndexSchemaValue   { return models.IndexSchemaValue{Type: models.IndexTypeInteger} }
func Float() models.IndexSchemaValue { return models.IndexSchemaValue{Type: models.IndexTypeFloat} }

func BinaryQ(threshold *float32, trigger int, metric string) *models.Quantizer {
	return &models.Quantizer{Type: models.QuantizerBinary, Binary: &models.BinaryQuantizerParamaters{Threshold: threshold, TriggerThreshold: trigger, DistanceMetric: metric}}
}

func ProductQ(centroids, subvectors, trigger int) *models.Quantizer {
	return &models.Quantizer{Type: models.QuantizerProduct, Product: &models.ProductQuantizerParameters{NumCentroids: centroids, NumSubVectors: subvectors, TriggerThreshold: trigger}}
}

// FilterSchema: every inverted index type, both case modes, nested paths.
func FilterSchema() models.IndexSchema {
	return models.IndexSchema{
		"s":         Str(false),
		"sc":        Str(true),
		"n":         Int(),
		"f":         Float(),
		"tags":      StrArr(false),
		"tagsc":     StrArr(true),
		"meta.n":    Int(),
		"meta.s":    Str(false),
		"meta.in.f": Float(),
	}
}

// FullSchema: one of every index type.
func FullSchema(dim int) models.IndexSchema {
	s := FilterSchema()
	s["vec"] = Vamana(dim, models.DistanceEuclidean, 75, 64, 1.2, nil)
	s["flat"] = Flat(dim, models.DistanceEuclidean, nil)
	s["txt"] = Text()
	return s
}
