package model

import (
	"math"
	"sort"

	"github.com/blevesearch/bleve/v2/analysis"
	_ "github.com/blevesearch/bleve/v2/analysis/analyzer/standard"
	"github.com/blevesearch/bleve/v2/registry"
	"github.com/google/uuid"
)

var analyserCache = registry.NewCache()
var stdAnalyser analysis.Analyzer

func init() {
	a, err := analyserCache.AnalyzerNamed("standard")
	if err != nil {
		panic(err)
	}
	stdAnalyser = a
}

// Analyse returns the token terms of a text under bleve's standard analyser
// (the property is about the index, not about the analyser, so the harness
// uses its own instance of the same analyser).
func Analyse(text string) []string {
	ts := stdAnalyser.Analyze([]byte(text))
	out := make([]string, len(ts))
	for i, t := range ts {
		out[i] = string(t.Term)
	}
	return out
}

type TextDoc struct {
	Freq map[string]int
	Len  int
}

// Corpus is the model of one text index.
type Corpus struct {
	Docs map[uuid.UUID]TextDoc
	DF   map[string]int
}

// BuildCorpus analyses the text field of every live document; documents whose
// text analyses to zero tokens are not part of the corpus.
func (m *Model) BuildCorpus(field string) *Corpus {
	c := &Corpus{Docs: map[uuid.UUID]TextDoc{}, DF: map[string]int{}}
	for id, d := range m.Docs {
		v, ok := Lookup(d, field)
		if !ok {
			continue
		}
		s, ok := v.(string)
		if !ok {
			continue
		}
		toks := Analyse(s)
		if len(toks) == 0 {
			continue
		}
		td := TextDoc{Freq: map[string]int{}, Len: len(toks)}
		for _, t := range toks {
			td.Freq[t]++
		}
		for t := range td.Freq {
			c.DF[t]++
		}
		c.Docs[id] = td
	}
	return c
}

type TextHit struct {
	Id    uuid.UUID
	Score float64
	Mag   float64 // sum of |term contributions| for the tolerance
}

// Query returns all matching documents with reference tf-idf scores, sorted by
// score descending. terms is the set of analysed query terms.
func (c *Corpus) Query(terms []string, all bool, filter map[uuid.UUID]bool) []TextHit {
	set := map[string]bool{}
	for _, t := range terms {
		set[t] = true
	}
	out := []TextHit{}
	n := float64(len(c.Docs))
	for id, td := range c.Docs {
		if filter != nil && !filter[id] {
			continue
		}
		nAny, nAll := false, true
		for t := range set {
			if td.Freq[t] > 0 {
				nAny = true
			} else {
				nAll = false
			}
		}
		if len(set) == 0 {
			nAll = false
		}
		if all && !nAll || !all && !nAny {
			continue
		}
		var score, mag float64
		for t := range set {
			tf := float64(float32(td.Freq[t]) / float32(td.Len))
			idf := math.Log10(n / float64(c.DF[t]+1))
			score += tf * idf
			mag += math.Abs(tf * idf)
		}
		out = append(out, TextHit{id, score, mag})
	}
	sort.Slice(out, func(i, j int) bool {
		if out[i].Score != out[j].Score {
			return out[i].Score > out[j].Score
		}
		return out[i].Id.String() < out[j].Id.String()
	})
	return out
}
