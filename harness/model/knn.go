package model

import (
	"math"
	"sort"

	"github.com/google/uuid"
	"github.com/semafind/semadb/models"
)

// Dist is a float64 reference distance with the magnitude S that scales the
// admissible float32 rounding error.
type Dist struct {
	V float64
	S float64 // sum of |terms|
	N int
}

// Bound is the accepted |float32 result - reference| (DESIGN 3.8).
func (d Dist) Bound() float64 {
	return 8*float64(d.N+8)*math.Ldexp(1, -24)*d.S + float64(d.N)*math.Ldexp(1, -126) + math.Abs(d.V)*math.Ldexp(1, -22)
}

const earthRadius = 6371000.0

// Metric computes the documented distance in float64.
func Metric(name string, x, y []float32) Dist {
	n := len(x)
	switch name {
	case models.DistanceEuclidean:
		var v float64
		for i := range x {
			d := float64(x[i]) - float64(y[i])
			v += d * d
		}
		return Dist{v, v, n}
	case models.DistanceDot, models.DistanceCosine:
		var v, s float64
		for i := range x {
			t := float64(x[i]) * float64(y[i])
			v += t
			s += math.Abs(t)
		}
		if name == models.DistanceDot {
			return Dist{-v, s, n}
		}
		return Dist{1 - v, s + 1, n}
	case models.DistanceHaversine:
		la1, lo1 := float64(x[0])*math.Pi/180, float64(x[1])*math.Pi/180
		la2, lo2 := float64(y[0])*math.Pi/180, float64(y[1])*math.Pi/180
		s1, s2 := math.Sin((la1-la2)/2), math.Sin((lo1-lo2)/2)
		a := s1*s1 + math.Cos(la1)*math.Cos(la2)*s2*s2
		if a > 1 {
			a = 1
		}
		v := 2 * earthRadius * math.Asin(math.Sqrt(a))
		return Dist{v, v + 1, 8}
	case models.DistanceHamming, models.DistanceJaccard:
		return BitMetric(name, Threshold(x, nil, 0.5), Threshold(y, nil, 0.5))
	}
	panic("unknown metric " + name)
}

// Threshold turns a float vector into bits: v[i] > t[i] (or > fixed when t is nil).
func Threshold(v []float32, t []float32, fixed float32) []bool {
	out := make([]bool, len(v))
	for i := range v {
		th := fixed
		if t != nil {
			th = t[i]
		}
		out[i] = v[i] > th
	}
	return out
}

func BitMetric(name string, a, b []bool) Dist {
	h, in, un := 0, 0, 0
	for i := range a {
		if a[i] != b[i] {
			h++
		}
		if a[i] && b[i] {
			in++
		}
		if a[i] || b[i] {
			un++
		}
	}
	if name == models.DistanceHamming {
		return Dist{float64(h), 0, 1}
	}
	if un == 0 {
		return Dist{0, 0, 1}
	}
	// the implementation computes 1 - float32(in)/float32(un)
	return Dist{float64(1 - float32(in)/float32(un)), 1, 1}
}

// BitsFromWords unpacks n bits from little-endian-in-word uint64 codes.
func BitsFromWords(w []uint64, n int) []bool {
	out := make([]bool, n)
	for i := 0; i < n; i++ {
		if i/64 < len(w) {
			out[i] = w[i/64]&(1<<(uint(i)%64)) != 0
		}
	}
	return out
}

type Cand struct {
	Id   uuid.UUID
	Dist Dist
}

// Candidates lists the live points that carry a well-formed vector under
// field and pass the filter (nil = all), with their reference distances.
func (m *Model) Candidates(field string, dim int, filter map[uuid.UUID]bool, distOf func(id uuid.UUID, v []float32) Dist) []Cand {
	out := []Cand{}
	for id, d := range m.Docs {
		if filter != nil && !filter[id] {
			continue
		}
		v, ok := AsVector(d, field)
		if !ok || len(v) != dim {
			continue
		}
		out = append(out, Cand{id, distOf(id, v)})
	}
	sort.Slice(out, func(i, j int) bool {
		if out[i].Dist.V != out[j].Dist.V {
			return out[i].Dist.V < out[j].Dist.V
		}
		return out[i].Id.String() < out[j].Id.String()
	})
	return out
}
