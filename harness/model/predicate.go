package model

import (
	"fmt"
	"strings"

	"github.com/google/uuid"
	"github.com/semafind/semadb/models"
)

// Matches evaluates a filter query (string, integer, float, stringArray,
// _id, _and, _or) on one document, by the documented meaning of the
// operators. ok=false when the query contains a non-filter leaf.
func Matches(schema models.IndexSchema, q models.Query, id uuid.UUID, d Doc) (match bool, ok bool) {
	switch q.Property {
	case "_and":
		for _, s := range q.And {
			m, ok := Matches(schema, s, id, d)
			if !ok {
				return false, false
			}
			if !m {
				match = false
				// keep evaluating for ok-ness
				for _, s2 := range q.And {
					if _, ok2 := Matches(schema, s2, id, d); !ok2 {
						return false, false
					}
				}
				return false, true
			}
		}
		return true, true
	case "_or":
		any := false
		for _, s := range q.Or {
			m, ok := Matches(schema, s, id, d)
			if !ok {
				return false, false
			}
			if m {
				any = true
			}
		}
		return any, true
	case "_id":
		switch {
		case q.String != nil:
			u, err := uuid.Parse(q.String.Value)
			return err == nil && u == id, true
		case q.StringArray != nil:
			for _, s := range q.StringArray.Value {
				if u, err := uuid.Parse(s); err == nil && u == id {
					return true, true
				}
			}
			return false, true
		}
		return false, false
	}
	sv, has := schema[q.Property]
	if !has {
		return false, false
	}
	val, present := Lookup(d, q.Property)
	if present && val == nil {
		present = false
	}
	switch sv.Type {
	case models.IndexTypeString:
		if q.String == nil {
			return false, false
		}
		if !present {
			return false, true
		}
		s, isStr := val.(string)
		if !isStr {
			return false, true
		}
		fold := sv.String != nil && !sv.String.CaseSensitive
		qv, ev := q.String.Value, q.String.EndValue
		if fold {
			s, qv, ev = strings.ToLower(s), strings.ToLower(qv), strings.ToLower(ev)
		}
		return cmpOp(q.String.Operator, strings.Compare(s, qv), strings.Compare(s, ev), strings.HasPrefix(s, qv)), true
	case models.IndexTypeInteger:
		if q.Integer == nil {
			return false, false
		}
		if !present {
			return false, true
		}
		n, isInt := AsInt(val)
		if !isInt {
			return false, true
		}
		return cmpOp(q.Integer.Operator, cmpI(n, q.Integer.Value), cmpI(n, q.Integer.EndValue), false), true
	case models.IndexTypeFloat:
		if q.Float == nil {
			return false, false
		}
		if !present {
			return false, true
		}
		f, isF := AsFloat(val)
		if !isF {
			return false, true
		}
		return cmpOp(q.Float.Operator, cmpF(f, q.Float.Value), cmpF(f, q.Float.EndValue), false), true
	case models.IndexTypeStringArray:
		if q.StringArray == nil {
			return false, false
		}
		if !present {
			return false, true
		}
		arr, isArr := AsStrings(val)
		if !isArr {
			return false, true
		}
		fold := sv.StringArray != nil && !sv.StringArray.CaseSensitive
		set := map[string]bool{}
		for _, s := range arr {
			if fold {
				s = strings.ToLower(s)
			}
			set[s] = true
		}
		all, any := true, false
		for _, s := range q.StringArray.Value {
			if fold {
				s = strings.ToLower(s)
			}
			if set[s] {
				any = true
			} else {
				all = false
			}
		}
		switch q.StringArray.Operator {
		case models.OperatorContainsAll:
			return all && len(q.StringArray.Value) > 0, true
		case models.OperatorContainsAny:
			return any, true
		}
		return false, false
	}
	return false, false
}

func cmpI(a, b int64) int {
	if a < b {
		return -1
	}
	if a > b {
		return 1
	}
	return 0
}

func cmpF(a, b float64) int {
	if a < b {
		return -1
	}
	if a > b {
		return 1
	}
	return 0
}

// cmpOp: c = cmp(stored, value), ce = cmp(stored, endValue).
func cmpOp(op string, c, ce int, prefix bool) bool {
	switch op {
	case models.OperatorEquals:
		return c == 0
	case models.OperatorNotEquals:
		return c != 0
	case models.OperatorStartsWith:
		return prefix
	case models.OperatorGreaterThan:
		return c > 0
	case models.OperatorGreaterOrEq:
		return c >= 0
	case models.OperatorLessThan:
		return c < 0
	case models.OperatorLessOrEq:
		return c <= 0
	case models.OperatorInRange:
		return c >= 0 && ce <= 0
	}
	panic(fmt.Sprintf("unknown operator %s", op))
}

// Select evaluates a filter over the whole model.
func (m *Model) Select(schema models.IndexSchema, q models.Query) (map[uuid.UUID]bool, bool) {
	out := map[uuid.UUID]bool{}
	for id, d := range m.Docs {
		match, ok := Matches(schema, q, id, d)
		if !ok {
			return nil, false
		}
		if match {
			out[id] = true
		}
	}
	return out, true
}
