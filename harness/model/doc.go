// Package model is the plain sequential reference model of one collection:
// documents, the insert/update/delete semantics, filter predicates, exact
// nearest neighbours in float64 and tf-idf. It shares no code with semadb
// except msgpack for turning documents into bytes.
package model

import (
	"fmt"
	"math"
	"reflect"
	"sort"
	"strings"

	"github.com/google/uuid"
	"github.com/vmihailenco/msgpack/v5"
)

type Doc = map[string]any

const DeleteValue = "_delete"

// Encode turns a document into the bytes the API layer would hand to a shard.
func Encode(d Doc) []byte {
	if d == nil {
		d = Doc{}
	}
	b, err := msgpack.Marshal(map[string]any(d))
	if err != nil {
		panic(err)
	}
	return b
}

// Decode parses stored bytes into a generic tree.
func Decode(b []byte) (Doc, error) {
	if len(b) == 0 {
		return Doc{}, nil
	}
	var d map[string]any
	if err := msgpack.Unmarshal(b, &d); err != nil {
		return nil, err
	}
	if d == nil {
		d = Doc{}
	}
	return d, nil
}

// Clone makes a deep copy through the canonical form.
func Clone(v any) any {
	switch x := v.(type) {
	case map[string]any:
		m := make(map[string]any, len(x))
		for k, e := range x {
			m[k] = Clone(e)
		}
		return m
	case []any:
		s := make([]any, len(x))
		for i, e := range x {
			s[i] = Clone(e)
		}
		return s
	case []float32:
		out := make([]float32, len(x))
		copy(out, x)
		return out
	case []string:
		out := make([]string, len(x))
		copy(out, x)
		return out
	case []byte:
		out := make([]byte, len(x))
		copy(out, x)
		return out
	}
	return v
}

func CloneDoc(d Doc) Doc { return Clone(map[string]any(d)).(map[string]any) }

type numClass int

const (
	notNum numClass = iota
	intNum
	uintNum
	floatNum
)

func classify(v any) (numClass, int64, uint64, float64) {
	rv := reflect.ValueOf(v)
	switch rv.Kind() {
	case reflect.Int, reflect.Int8, reflect.Int16, reflect.Int32, reflect.Int64:
		return intNum, rv.Int(), 0, 0
	case reflect.Uint, reflect.Uint8, reflect.Uint16, reflect.Uint32, reflect.Uint64:
		return uintNum, 0, rv.Uint(), 0
	case reflect.Float32, reflect.Float64:
		return floatNum, 0, 0, rv.Float()
	}
	return notNum, 0, 0, 0
}

// Equal compares two document values semantically: integers by value whatever
// their width or signedness, floats by value (bit-equal for NaN), strings,
// byte strings, arrays element-wise, maps key-wise. Integer and float are
// different kinds.
func Equal(a, b any) bool {
	if a == nil || b == nil {
		return a == nil && b == nil
	}
	ca, ia, ua, fa := classify(a)
	cb, ib, ub, fb := classify(b)
	if ca != notNum || cb != notNum {
		if ca == notNum || cb == notNum {
			return false
		}
		if ca == floatNum || cb == floatNum {
			if ca != cb {
				return false
			}
			if math.IsNaN(fa) || math.IsNaN(fb) {
				return math.IsNaN(fa) && math.IsNaN(fb)
			}
			return fa == fb
		}
		// both integers
		if ca == intNum && cb == intNum {
			return ia == ib
		}
		if ca == uintNum && cb == uintNum {
			return ua == ub
		}
		if ca == intNum {
			return ia >= 0 && uint64(ia) == ub
		}
		return ib >= 0 && uint64(ib) == ua
	}
	switch x := a.(type) {
	case string:
		y, ok := b.(string)
		return ok && x == y
	case bool:
		y, ok := b.(bool)
		return ok && x == y
	case []byte:
		y, ok := b.([]byte)
		return ok && string(x) == string(y)
	case map[string]any:
		y, ok := b.(map[string]any)
		if !ok || len(x) != len(y) {
			return false
		}
		for k, v := range x {
			w, ok := y[k]
			if !ok || !Equal(v, w) {
				return false
			}
		}
		return true
	}
	// sequences of any flavour
	la, oka := asList(a)
	lb, okb := asList(b)
	if oka && okb {
		if len(la) != len(lb) {
			return false
		}
		for i := range la {
			if !Equal(la[i], lb[i]) {
				return false
			}
		}
		return true
	}
	return reflect.DeepEqual(a, b)
}

func asList(v any) ([]any, bool) {
	switch x := v.(type) {
	case []any:
		return x, true
	case []float32:
		out := make([]any, len(x))
		for i, e := range x {
			out[i] = e
		}
		return out, true
	case []float64:
		out := make([]any, len(x))
		for i, e := range x {
			out[i] = e
		}
		return out, true
	case []string:
		out := make([]any, len(x))
		for i, e := range x {
			out[i] = e
		}
		return out, true
	case []int64:
		out := make([]any, len(x))
		for i, e := range x {
			out[i] = e
		}
		return out, true
	}
	return nil, false
}

// Lookup follows a dotted path through nested maps. A path whose intermediate
// is not a map is absent.
func Lookup(d Doc, path string) (any, bool) {
	var cur any = map[string]any(d)
	for _, seg := range strings.Split(path, ".") {
		m, ok := cur.(map[string]any)
		if !ok {
			return nil, false
		}
		cur, ok = m[seg]
		if !ok {
			return nil, false
		}
	}
	return cur, true
}

// AsVector returns the float32 vector stored under path, if any.
func AsVector(d Doc, path string) ([]float32, bool) {
	v, ok := Lookup(d, path)
	if !ok || v == nil {
		return nil, false
	}
	switch x := v.(type) {
	case []float32:
		return x, true
	case []any:
		out := make([]float32, len(x))
		for i, e := range x {
			switch f := e.(type) {
			case float32:
				out[i] = f
			case float64:
				out[i] = float32(f)
			default:
				return nil, false
			}
		}
		return out, true
	}
	return nil, false
}

func AsStrings(v any) ([]string, bool) {
	switch x := v.(type) {
	case []string:
		return x, true
	case []any:
		out := make([]string, len(x))
		for i, e := range x {
			s, ok := e.(string)
			if !ok {
				return nil, false
			}
			out[i] = s
		}
		return out, true
	}
	return nil, false
}

func AsInt(v any) (int64, bool) {
	c, i, u, _ := classify(v)
	switch c {
	case intNum:
		return i, true
	case uintNum:
		if u <= math.MaxInt64 {
			return int64(u), true
		}
	}
	return 0, false
}

// CmpInteger orders two integer values of any width and signedness by value (so a uint64 above
// MaxInt64 is larger than every int64); ok is false when either is not an integer.
func CmpInteger(a, b any) (int, bool) {
	ca, ia, ua, _ := classify(a)
	cb, ib, ub, _ := classify(b)
	if (ca != intNum && ca != uintNum) || (cb != intNum && cb != uintNum) {
		return 0, false
	}
	// normalise to (negative?, magnitude as uint64 when non-negative)
	na, nb := ca == intNum && ia < 0, cb == intNum && ib < 0
	switch {
	case na && nb:
		return cmpOrd(ia, ib), true
	case na:
		return -1, true
	case nb:
		return 1, true
	}
	if ca == intNum {
		ua = uint64(ia)
	}
	if cb == intNum {
		ub = uint64(ib)
	}
	return cmpOrd(ua, ub), true
}

func cmpOrd[T int64 | uint64](a, b T) int {
	switch {
	case a < b:
		return -1
	case a > b:
		return 1
	}
	return 0
}

func AsFloat(v any) (float64, bool) {
	c, _, _, f := classify(v)
	if c == floatNum {
		return f, true
	}
	return 0, false
}

// Describe renders a value compactly for witnesses.
func Describe(v any) string {
	switch x := v.(type) {
	case map[string]any:
		keys := make([]string, 0, len(x))
		for k := range x {
			keys = append(keys, k)
		}
		sort.Strings(keys)
		var sb strings.Builder
		sb.WriteString("{")
		for i, k := range keys {
			if i > 0 {
				sb.WriteString(", ")
			}
			fmt.Fprintf(&sb, "%q: %s", k, Describe(x[k]))
		}
		sb.WriteString("}")
		return sb.String()
	case string:
		return fmt.Sprintf("%q", x)
	case float64:
		if x == 0 && math.Signbit(x) {
			return "-0.0"
		}
		return fmt.Sprintf("%g(f64)", x)
	case float32:
		return fmt.Sprintf("%g(f32)", x)
	case []any:
		if len(x) > 8 {
			return fmt.Sprintf("[%s ... %d items]", Describe(x[0]), len(x))
		}
		parts := make([]string, len(x))
		for i, e := range x {
			parts[i] = Describe(e)
		}
		return "[" + strings.Join(parts, " ") + "]"
	case []float32:
		if len(x) > 8 {
			return fmt.Sprintf("[%g ... %d floats]", x[0], len(x))
		}
		return fmt.Sprintf("%v", x)
	}
	return fmt.Sprintf("%v(%T)", v, v)
}

// ---------------------------------------------------------------------------

// Point is a write request item.
type Point struct {
	Id  uuid.UUID
	Doc Doc
}

// Model is the reference state of a collection (or of one shard).
type Model struct {
	Docs map[uuid.UUID]Doc
}

func New() *Model { return &Model{Docs: map[uuid.UUID]Doc{}} }

func (m *Model) Clone() *Model {
	c := New()
	for k, v := range m.Docs {
		c.Docs[k] = CloneDoc(v)
	}
	return c
}

// Insert: rejected as a whole if an id repeats in the batch or is stored.
func (m *Model) Insert(points []Point) error {
	seen := map[uuid.UUID]bool{}
	for _, p := range points {
		if seen[p.Id] {
			return fmt.Errorf("duplicate id %s in batch", p.Id)
		}
		seen[p.Id] = true
	}
	for _, p := range points {
		if _, ok := m.Docs[p.Id]; ok {
			return fmt.Errorf("id %s already stored", p.Id)
		}
	}
	for _, p := range points {
		m.Docs[p.Id] = CloneDoc(p.Doc)
	}
	return nil
}

// Merge applies the shallow-merge update rule to a document.
func Merge(existing, incoming Doc) Doc {
	out := CloneDoc(existing)
	for k, v := range incoming {
		if s, ok := v.(string); ok && s == DeleteValue {
			delete(out, k)
		} else {
			out[k] = Clone(v)
		}
	}
	return out
}

// Update merges in order; unknown ids are skipped. maxSize <= 0 means no
// limit; a merged document above the limit rejects the whole batch.
func (m *Model) Update(points []Point, maxSize int) (updated []uuid.UUID, err error) {
	work := map[uuid.UUID]Doc{}
	for _, p := range points {
		cur, ok := work[p.Id]
		if !ok {
			cur, ok = m.Docs[p.Id]
			if !ok {
				continue
			}
		}
		merged := Merge(cur, p.Doc)
		if maxSize > 0 && len(Encode(merged)) > maxSize {
			return nil, fmt.Errorf("merged document of %s exceeds %d bytes", p.Id, maxSize)
		}
		work[p.Id] = merged
		updated = append(updated, p.Id)
	}
	for id, d := range work {
		m.Docs[id] = d
	}
	return updated, nil
}

func (m *Model) Delete(ids []uuid.UUID) (deleted []uuid.UUID) {
	for _, id := range ids {
		if _, ok := m.Docs[id]; ok {
			delete(m.Docs, id)
			deleted = append(deleted, id)
		}
	}
	return
}

func (m *Model) SortedIds() []uuid.UUID {
	ids := make([]uuid.UUID, 0, len(m.Docs))
	for id := range m.Docs {
		ids = append(ids, id)
	}
	sort.Slice(ids, func(i, j int) bool { return strings.Compare(ids[i].String(), ids[j].String()) < 0 })
	return ids
}

// EqualLoose compares a stored document value with one that went through a
// JSON response: numbers are compared by value whatever their kind (float32
// values within float32 precision), byte strings may arrive base64 encoded.
func EqualLoose(a, b any) bool {
	if a == nil || b == nil {
		return a == nil && b == nil
	}
	ca, ia, ua, fa := classify(a)
	cb, ib, ub, fb := classify(b)
	if ca != notNum && cb != notNum {
		toF := func(c numClass, i int64, u uint64, f float64) float64 {
			switch c {
			case intNum:
				return float64(i)
			case uintNum:
				return float64(u)
			}
			return f
		}
		x, y := toF(ca, ia, ua, fa), toF(cb, ib, ub, fb)
		if x == y {
			return true
		}
		return math.Abs(x-y) <= 1e-6*math.Max(1, math.Max(math.Abs(x), math.Abs(y)))
	}
	if ca != notNum || cb != notNum {
		return false
	}
	switch x := a.(type) {
	case map[string]any:
		y, ok := b.(map[string]any)
		if !ok || len(x) != len(y) {
			return false
		}
		for k, v := range x {
			w, ok := y[k]
			if !ok || !EqualLoose(v, w) {
				return false
			}
		}
		return true
	case string:
		y, ok := b.(string)
		return ok && x == y
	case bool:
		y, ok := b.(bool)
		return ok && x == y
	}
	la, oka := asList(a)
	lb, okb := asList(b)
	if oka && okb {
		if len(la) != len(lb) {
			return false
		}
		for i := range la {
			if !EqualLoose(la[i], lb[i]) {
				return false
			}
		}
		return true
	}
	return reflect.DeepEqual(a, b)
}
