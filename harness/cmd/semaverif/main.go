package main

import (
	"flag"
	"fmt"
	"os"

	"semaverif/fw"
	"semaverif/httpx"
	_ "semaverif/props"
)

func main() {
	if len(os.Args) < 2 {
		fmt.Fprintln(os.Stderr, "usage: semaverif run <id> [--tier t] [--replay f] | worker <case> <result> | list")
		os.Exit(2)
	}
	switch os.Args[1] {
	case "worker":
		os.Exit(fw.WorkerMain(os.Args[2], os.Args[3]))
	case "node":
		os.Exit(httpx.NodeMain(os.Args[2:]))
	case "list":
		for _, id := range fw.IDs() {
			fmt.Println(id)
		}
	case "run":
		fs := flag.NewFlagSet("run", flag.ExitOnError)
		tier := fs.String("tier", "quick", "quick|thorough")
		replay := fs.String("replay", "", "replay file")
		id := os.Args[2]
		fs.Parse(os.Args[3:])
		if t := os.Getenv("VERIF_TIER"); t != "" && *tier == "" {
			*tier = t
		}
		os.Exit(fw.RunProperty(id, *tier, fw.SeedFromEnv(), *replay))
	default:
		if h, ok := fw.Subcommands[os.Args[1]]; ok {
			os.Exit(h(os.Args[2:]))
		}
		fmt.Fprintln(os.Stderr, "unknown subcommand", os.Args[1])
		os.Exit(2)
	}
}
