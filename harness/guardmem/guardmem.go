// Package guardmem allocates float32 / uint64 slices whose last element ends
// exactly at a PROT_NONE page (or whose first element starts right after
// one), so that any read past either end of the slice faults.
package guardmem

import (
	"fmt"
	"syscall"
	"unsafe"
)

const page = 4096

type Region struct {
	mem []byte
}

// Alloc returns a region with nBytes usable bytes, framed by one inaccessible
// page before and one after the data pages.
func Alloc(nBytes int) (*Region, error) {
	dataPages := (nBytes + page - 1) / page
	if dataPages == 0 {
		dataPages = 1
	}
	total := (dataPages + 2) * page
	mem, err := syscall.Mmap(-1, 0, total, syscall.PROT_READ|syscall.PROT_WRITE, syscall.MAP_ANON|syscall.MAP_PRIVATE)
	if err != nil {
		return nil, fmt.Errorf("mmap: %w", err)
	}
	if err := syscall.Mprotect(mem[:page], syscall.PROT_NONE); err != nil {
		return nil, err
	}
	if err := syscall.Mprotect(mem[total-page:], syscall.PROT_NONE); err != nil {
		return nil, err
	}
	return &Region{mem: mem}, nil
}

func (r *Region) Free() { syscall.Munmap(r.mem) }

// FloatsAtEnd returns a slice of n floats whose last byte is the last
// accessible byte before the trailing guard page.
func (r *Region) FloatsAtEnd(n int) []float32 {
	end := len(r.mem) - page
	start := end - 4*n
	if n == 0 {
		return nil
	}
	return unsafe.Slice((*float32)(unsafe.Pointer(&r.mem[start])), n)
}

// FloatsAtStart returns a slice of n floats starting right after the leading
// guard page.
func (r *Region) FloatsAtStart(n int) []float32 {
	if n == 0 {
		return nil
	}
	return unsafe.Slice((*float32)(unsafe.Pointer(&r.mem[page])), n)
}

func (r *Region) Uint64sAtEnd(n int) []uint64 {
	end := len(r.mem) - page
	start := end - 8*n
	if n == 0 {
		return nil
	}
	return unsafe.Slice((*uint64)(unsafe.Pointer(&r.mem[start])), n)
}
