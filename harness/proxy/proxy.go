// Package proxy wraps a shard's diskstore.DiskStore (through the verif hook
// VerifWrapDiskStore) and can count, fail or kill at the k-th storage
// operation of a write transaction, fail or kill at commit, and pause
// transactions at chosen points.
package proxy

import (
	"errors"
	"fmt"
	"sync"
	"sync/atomic"
	"syscall"

	"github.com/semafind/semadb/diskstore"
)

var ErrInjected = errors.New("injected storage fault")

type Mode int

const (
	Off Mode = iota
	Count
	FailOp           // k-th failable operation (Put/Delete/scan/bucket open) returns ErrInjected
	FailCommit       // callback runs, then the transaction is failed so that bbolt rolls back
	FailClass        // k-th failable operation of one class (bucket|kind|key class) returns ErrInjected
	KillOp           // SIGKILL at the k-th operation (any kind)
	PanicOp          // the k-th operation (any kind) panics inside the storage layer
	KillBeforeCommit // SIGKILL after the callback, before bbolt commits
	KillAfterCommit  // SIGKILL right after the storage commit returned
)

type OpInfo struct {
	Bucket string
	Kind   string
	KeyCls string
	N      int64
}

type Proxy struct {
	inner diskstore.DiskStore
	mu    sync.Mutex
	mode  Mode
	k     int64
	// counters of the current / last armed write transaction
	ops      atomic.Int64 // all operations
	failable atomic.Int64 // operations that can return an error
	Fired    atomic.Bool
	FiredOp  OpInfo
	// failable operations per class (bucket|kind|key class) since Arm
	classCounts map[string]int64
	targetCls   string
	// hooks for forced interleavings (may be nil)
	BeforeRead   func()
	AfterReadTx  func()
	BeforeCommit func()
	AfterCommit  func()
	ReadTxs      atomic.Int64
	WriteTxs     atomic.Int64
	// OpHook, if set, is called before every bucket operation (a storage access is a point at which
	// a goroutine may be descheduled for any length of time; checks use it for seeded pauses)
	OpHook func(bucket, kind string, key []byte)
}

func Wrap(inner diskstore.DiskStore) *Proxy { return &Proxy{inner: inner} }

// Arm sets the behaviour of the next write transactions.
func (p *Proxy) Arm(mode Mode, k int64) {
	p.mu.Lock()
	p.mode, p.k = mode, k
	p.classCounts = map[string]int64{}
	p.targetCls = ""
	p.mu.Unlock()
	p.ops.Store(0)
	p.failable.Store(0)
	p.Fired.Store(false)
}

// ArmClass makes the k-th failable operation of class cls fail in the next write transactions.
func (p *Proxy) ArmClass(cls string, k int64) {
	p.Arm(FailClass, k)
	p.mu.Lock()
	p.targetCls = cls
	p.mu.Unlock()
}

// ClassCounts returns the failable operations per class seen since Arm.
func (p *Proxy) ClassCounts() map[string]int64 {
	p.mu.Lock()
	defer p.mu.Unlock()
	out := make(map[string]int64, len(p.classCounts))
	for k, v := range p.classCounts {
		out[k] = v
	}
	return out
}

func (p *Proxy) Disarm() { p.Arm(Off, 0) }

// Counts returns (all operations, failable operations) seen since Arm.
func (p *Proxy) Counts() (int64, int64) { return p.ops.Load(), p.failable.Load() }

func (p *Proxy) current() (Mode, int64) {
	p.mu.Lock()
	defer p.mu.Unlock()
	return p.mode, p.k
}

func (p *Proxy) Path() string                   { return p.inner.Path() }
func (p *Proxy) BackupToFile(path string) error { return p.inner.BackupToFile(path) }
func (p *Proxy) SizeInBytes() (int64, error)    { return p.inner.SizeInBytes() }
func (p *Proxy) Close() error                   { return p.inner.Close() }

func (p *Proxy) Read(f func(diskstore.BucketManager) error) error {
	p.ReadTxs.Add(1)
	if p.BeforeRead != nil {
		p.BeforeRead()
	}
	err := p.inner.Read(func(bm diskstore.BucketManager) error {
		if p.AfterReadTx != nil {
			p.AfterReadTx()
		}
		return f(bm)
	})
	return err
}

func (p *Proxy) Write(f func(diskstore.BucketManager) error) error {
	p.WriteTxs.Add(1)
	mode, _ := p.current()
	err := p.inner.Write(func(bm diskstore.BucketManager) error {
		var use diskstore.BucketManager = bm
		if mode != Off {
			use = &pbm{bm: bm, p: p}
		}
		err := f(use)
		if err != nil {
			return err
		}
		if p.BeforeCommit != nil {
			p.BeforeCommit()
		}
		switch mode {
		case FailCommit:
			p.Fired.Store(true)
			p.FiredOp = OpInfo{Kind: "commit"}
			return fmt.Errorf("commit: %w", ErrInjected)
		case KillBeforeCommit:
			p.Fired.Store(true)
			syscall.Kill(syscall.Getpid(), syscall.SIGKILL)
			select {}
		}
		return nil
	})
	if err == nil {
		if mode == KillAfterCommit {
			syscall.Kill(syscall.Getpid(), syscall.SIGKILL)
			select {}
		}
		if p.AfterCommit != nil {
			p.AfterCommit()
		}
	}
	return err
}

func keyClass(k []byte) string {
	switch {
	case len(k) == 10 && k[0] == 'n':
		return "node/" + string(k[9:10])
	case len(k) == 18 && k[0] == 'p':
		return "point/" + string(k[17:18])
	case len(k) == 9 && k[0] == 'd':
		return "textdoc"
	case len(k) > 0 && k[0] == 't':
		return "term"
	case len(k) > 0 && k[0] == '_':
		return string(k)
	case len(k) == 8:
		return "sortable8"
	}
	if s := string(k); s == "pointCount" || s == "freeNodeIds" || s == "nextFreeNodeId" {
		return s
	}
	return "other"
}

// step accounts one operation and decides whether it must fail / kill.
func (p *Proxy) step(bucket, kind string, key []byte, failable bool) error {
	if h := p.OpHook; h != nil {
		h(bucket, kind, key)
	}
	mode, k := p.current()
	n := p.ops.Add(1)
	var fn, cn int64
	target := ""
	cls := ""
	if failable {
		fn = p.failable.Add(1)
		if mode != Off {
			cls = bucket + "|" + kind + "|" + keyClass(key)
			p.mu.Lock()
			if p.classCounts != nil {
				p.classCounts[cls]++
				cn = p.classCounts[cls]
			}
			target = p.targetCls
			p.mu.Unlock()
		}
	}
	switch mode {
	case FailClass:
		if failable && cls == target && cn == k {
			p.Fired.Store(true)
			p.FiredOp = OpInfo{Bucket: bucket, Kind: kind, KeyCls: keyClass(key), N: fn}
			return fmt.Errorf("%s %s: %w", kind, bucket, ErrInjected)
		}
	case KillOp:
		if n == k {
			syscall.Kill(syscall.Getpid(), syscall.SIGKILL)
			select {}
		}
	case PanicOp:
		if n == k {
			p.Fired.Store(true)
			panic("injected storage panic")
		}
	case FailOp:
		if failable && fn == k {
			p.Fired.Store(true)
			p.FiredOp = OpInfo{Bucket: bucket, Kind: kind, KeyCls: keyClass(key), N: fn}
			return fmt.Errorf("%s %s: %w", kind, bucket, ErrInjected)
		}
	}
	return nil
}

type pbm struct {
	bm diskstore.BucketManager
	p  *Proxy
}

func (m *pbm) Get(name string) (diskstore.Bucket, error) {
	if err := m.p.step(name, "open-bucket", nil, true); err != nil {
		return nil, err
	}
	b, err := m.bm.Get(name)
	if err != nil {
		return nil, err
	}
	return &pb{b: b, name: name, p: m.p}, nil
}

func (m *pbm) Delete(name string) error {
	if err := m.p.step(name, "delete-bucket", nil, true); err != nil {
		return err
	}
	return m.bm.Delete(name)
}

type pb struct {
	b    diskstore.Bucket
	name string
	p    *Proxy
}

func (b *pb) IsReadOnly() bool { return b.b.IsReadOnly() }

func (b *pb) Get(k []byte) []byte {
	b.p.step(b.name, "get", k, false)
	return b.b.Get(k)
}

func (b *pb) Put(k, v []byte) error {
	if err := b.p.step(b.name, "put", k, true); err != nil {
		return err
	}
	return b.b.Put(k, v)
}

func (b *pb) Delete(k []byte) error {
	if err := b.p.step(b.name, "delete", k, true); err != nil {
		return err
	}
	return b.b.Delete(k)
}

func (b *pb) ForEach(f func(k, v []byte) error) error {
	if err := b.p.step(b.name, "foreach", nil, true); err != nil {
		return err
	}
	return b.b.ForEach(f)
}

func (b *pb) PrefixScan(prefix []byte, f func(k, v []byte) error) error {
	if err := b.p.step(b.name, "prefixscan", prefix, true); err != nil {
		return err
	}
	return b.b.PrefixScan(prefix, f)
}

func (b *pb) RangeScan(start, end []byte, inclusive bool, f func(k, v []byte) error) error {
	if err := b.p.step(b.name, "rangescan", start, true); err != nil {
		return err
	}
	return b.b.RangeScan(start, end, inclusive, f)
}
