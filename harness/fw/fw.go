// Package fw is the runner shared by all property checks: case lists, child
// process isolation, crash / race / deadlock classification, known findings,
// evidence files and the VIOLATION / KNOWN-FINDING interface.
package fw

import (
	"crypto/sha256"
	"encoding/binary"
	"encoding/json"
	"fmt"
	"os"
	"os/exec"
	"path/filepath"
	"regexp"
	"sort"
	"strconv"
	"strings"
	"sync"
	"syscall"
	"time"
)

// Violation is one refutation of a property observed in an execution.
type Violation struct {
	Kind    string `json:"kind"`
	Sig     string `json:"sig"` // stable signature; known findings match on it
	Detail  string `json:"detail"`
	Witness any    `json:"witness,omitempty"`
}

// CaseResult is what a worker child reports for one case.
type CaseResult struct {
	Evals        int64            `json:"evals"`
	Nontrivial   []uint64         `json:"nontrivial"`
	Violations   []Violation      `json:"violations"`
	Samples      []any            `json:"samples,omitempty"`
	Stats        map[string]int64 `json:"stats,omitempty"`
	Inconclusive int64            `json:"inconclusive"`
	Notes        []string         `json:"notes,omitempty"`
	ntSet        map[uint64]struct{}
	mu           sync.Mutex
}

func NewResult() *CaseResult {
	return &CaseResult{Stats: map[string]int64{}, ntSet: map[uint64]struct{}{}}
}

func (r *CaseResult) Stat(name string, n int64) {
	r.mu.Lock()
	r.Stats[name] += n
	r.mu.Unlock()
}

func (r *CaseResult) StatMax(name string, n int64) {
	r.mu.Lock()
	if r.Stats[name] < n {
		r.Stats[name] = n
	}
	r.mu.Unlock()
}

// Eval counts one conclusive oracle decision; key identifies it for the
// distinct count when nontrivial is true.
func (r *CaseResult) Eval(nontrivial bool, key ...any) {
	r.mu.Lock()
	r.Evals++
	if nontrivial {
		h := Hash64(key...)
		if _, ok := r.ntSet[h]; !ok {
			r.ntSet[h] = struct{}{}
			r.Nontrivial = append(r.Nontrivial, h)
		}
	}
	r.mu.Unlock()
}

func (r *CaseResult) Violate(kind, sig, detail string, witness any) {
	r.mu.Lock()
	defer r.mu.Unlock()
	if len(r.Violations) >= 40 {
		r.Stats["violations_dropped"]++
		return
	}
	if len(detail) > 4000 {
		detail = detail[:4000] + "...(truncated)"
	}
	r.Violations = append(r.Violations, Violation{Kind: kind, Sig: sig, Detail: detail, Witness: witness})
}

func (r *CaseResult) Sample(s any) {
	r.mu.Lock()
	if len(r.Samples) < 3 {
		r.Samples = append(r.Samples, s)
	}
	r.mu.Unlock()
}

func (r *CaseResult) Note(format string, a ...any) {
	r.mu.Lock()
	if len(r.Notes) < 20 {
		r.Notes = append(r.Notes, fmt.Sprintf(format, a...))
	}
	r.mu.Unlock()
}

// Hash64 hashes a canonical rendering of the arguments.
func Hash64(parts ...any) uint64 {
	h := sha256.New()
	for _, p := range parts {
		switch v := p.(type) {
		case string:
			h.Write([]byte(v))
		case []byte:
			h.Write(v)
		default:
			fmt.Fprintf(h, "%v", v)
		}
		h.Write([]byte{0})
	}
	return binary.LittleEndian.Uint64(h.Sum(nil)[:8])
}

// Case is one unit of work handed to a worker child.
type Case struct {
	Prop   string         `json:"prop"`
	Tier   string         `json:"tier"`
	Idx    int            `json:"idx"`
	Seed   uint64         `json:"seed"`
	Name   string         `json:"name"`
	Params map[string]any `json:"params,omitempty"`
}

func (c Case) Int(name string, def int) int {
	if v, ok := c.Params[name]; ok {
		switch x := v.(type) {
		case float64:
			return int(x)
		case int:
			return x
		}
	}
	return def
}
func (c Case) Str(name, def string) string {
	if v, ok := c.Params[name]; ok {
		if s, ok := v.(string); ok {
			return s
		}
	}
	return def
}
func (c Case) Bool(name string, def bool) bool {
	if v, ok := c.Params[name]; ok {
		if s, ok := v.(bool); ok {
			return s
		}
	}
	return def
}

// Env is what a worker gets besides its case.
type Env struct {
	Dir     string // private scratch directory, removed by the parent
	Exe     string
	Replay  bool
	Verbose bool
}

// Property describes one check.
type Property interface {
	ID() string
	Level() string // evidence level
	Rule() string
	Assumptions() []string
	Cases(tier string, seed uint64) []Case
	RunCase(c Case, env *Env) *CaseResult
	Floor(tier string) int
	Timeout(tier string) time.Duration // per child
	Parallel(tier string) int
}

// Optional: properties whose children dying is expected to be classified.
type CrashClassifier interface {
	ClassifyCrash(c Case, stderr string, exitErr string) []Violation
}

// Optional: a property whose harness callbacks write plain memory on purpose, so that the race detector
// acts as a second isolation monitor (C11): races between two harness accesses are then signals, not bugs
// of the machinery.
type HarnessRaceSignals interface {
	HarnessRacesAreSignals() bool
}

// Optional: post-processing over all results (e.g. cross-case checks).
type Finisher interface {
	Finish(tier string, results []*CaseResult, agg *Aggregate)
}

var registry = map[string]Property{}

func Register(p Property) { registry[p.ID()] = p }
func Lookup(id string) Property {
	return registry[id]
}
func IDs() []string {
	ids := []string{}
	for k := range registry {
		ids = append(ids, k)
	}
	sort.Strings(ids)
	return ids
}

// ---------------------------------------------------------------------------
// Known findings

type KnownFinding struct {
	Property string `json:"property"`
	ID       string `json:"id"`
	Status   string `json:"status"` // open | fixed
	Kind     string `json:"kind"`
	SigRe    string `json:"sig_re"`
	What     string `json:"what"`
	Commit   string `json:"commit,omitempty"`
	re       *regexp.Regexp
}

func LoadKnown(path string) ([]*KnownFinding, error) {
	data, err := os.ReadFile(path)
	if err != nil {
		if os.IsNotExist(err) {
			return nil, nil
		}
		return nil, err
	}
	var out []*KnownFinding
	for _, line := range strings.Split(string(data), "\n") {
		line = strings.TrimSpace(line)
		if line == "" || strings.HasPrefix(line, "#") || strings.HasPrefix(line, "fixed:") {
			continue
		}
		var k KnownFinding
		if err := json.Unmarshal([]byte(line), &k); err != nil {
			return nil, fmt.Errorf("known findings: %w in %q", err, line)
		}
		if k.Status == "fixed" {
			continue // fixed entries suppress nothing
		}
		re, err := regexp.Compile(k.SigRe)
		if err != nil {
			return nil, err
		}
		k.re = re
		out = append(out, &k)
	}
	return out, nil
}

func matchKnown(known []*KnownFinding, prop string, v Violation) *KnownFinding {
	for _, k := range known {
		if k.Property == prop && k.Kind == v.Kind && k.re.MatchString(v.Sig) {
			return k
		}
	}
	return nil
}

// ---------------------------------------------------------------------------
// Aggregate and evidence

type Aggregate struct {
	Evals        int64
	Nontrivial   map[uint64]struct{}
	Stats        map[string]int64
	Samples      []any
	Inconclusive int64
	Notes        []string
	Violations   []caseViolation
	CasesRun     int
	CasesDead    int
}

type caseViolation struct {
	Case Case
	V    Violation
}

type runOpts struct {
	VerifDir string
	Tier     string
	Seed     uint64
	Exe      string
	TmpDir   string
	Race     bool
}

func verifDir() string {
	if d := os.Getenv("VERIF_DIR"); d != "" {
		return d
	}
	return "/verif"
}

// RunProperty is the parent side: run every case in a child, aggregate,
// write evidence, print the verdict lines and return the exit code.
func RunProperty(id, tier string, seed uint64, replayPath string) int {
	p := Lookup(id)
	if p == nil {
		fmt.Fprintf(os.Stderr, "unknown property %s (have %v)\n", id, IDs())
		return 2
	}
	start := time.Now()
	exe, _ := os.Executable()
	vdir := verifDir()
	tmpRoot := os.Getenv("VERIF_TMP")
	if tmpRoot == "" {
		tmpRoot = filepath.Join(os.TempDir(), fmt.Sprintf("semaverif.%s.%d", id, os.Getpid()))
	}
	os.MkdirAll(tmpRoot, 0o755)
	defer RemoveAllScratch(tmpRoot)

	known, err := LoadKnown(filepath.Join(vdir, "KNOWN_FINDINGS.jsonl"))
	if err != nil {
		fmt.Fprintln(os.Stderr, "cannot load known findings:", err)
		return 2
	}

	var cases []Case
	if replayPath != "" {
		data, err := os.ReadFile(replayPath)
		if err != nil {
			fmt.Fprintln(os.Stderr, err)
			return 2
		}
		var rp struct {
			Case Case `json:"case"`
		}
		if err := json.Unmarshal(data, &rp); err != nil {
			fmt.Fprintln(os.Stderr, err)
			return 2
		}
		cases = []Case{rp.Case}
		tier = rp.Case.Tier
	} else {
		cases = p.Cases(tier, seed)
		for i := range cases {
			cases[i].Prop = id
			cases[i].Tier = tier
			cases[i].Idx = i
		}
	}

	agg := &Aggregate{Nontrivial: map[uint64]struct{}{}, Stats: map[string]int64{}}
	results := make([]*CaseResult, len(cases))
	par := p.Parallel(tier)
	if par < 1 {
		par = 1
	}
	sem := make(chan struct{}, par)
	var wg sync.WaitGroup
	var mu sync.Mutex
	for i := range cases {
		wg.Add(1)
		sem <- struct{}{}
		go func(i int) {
			defer wg.Done()
			defer func() { <-sem }()
			c := cases[i]
			res, dead := runChild(p, c, exe, tmpRoot, tier)
			mu.Lock()
			results[i] = res
			agg.CasesRun++
			if dead {
				agg.CasesDead++
			}
			mu.Unlock()
		}(i)
	}
	wg.Wait()
	for i, res := range results {
		if res == nil {
			continue
		}
		agg.Evals += res.Evals
		for _, h := range res.Nontrivial {
			agg.Nontrivial[h] = struct{}{}
		}
		for k, v := range res.Stats {
			if strings.HasPrefix(k, "max_") {
				if agg.Stats[k] < v {
					agg.Stats[k] = v
				}
			} else {
				agg.Stats[k] += v
			}
		}
		agg.Inconclusive += res.Inconclusive
		if len(agg.Samples) < 4 && len(res.Samples) > 0 {
			agg.Samples = append(agg.Samples, res.Samples[0])
		}
		for _, n := range res.Notes {
			if len(agg.Notes) < 30 {
				agg.Notes = append(agg.Notes, n)
			}
		}
		for _, v := range res.Violations {
			agg.Violations = append(agg.Violations, caseViolation{Case: cases[i], V: v})
		}
	}
	if f, ok := p.(Finisher); ok {
		f.Finish(tier, results, agg)
	}

	// Verdict
	exit := 0
	unlisted := 0
	knownSeen := map[string]int{}
	knownWhat := map[string]string{}
	replayN := 0
	rpdir := filepath.Join(vdir, "replays")
	if d := os.Getenv("VERIF_EVIDENCE_DIR"); d != "" {
		// development aid (runs against a scratch checkout): replays go with the scratch evidence
		rpdir = filepath.Join(d, "replays")
	}
	os.MkdirAll(rpdir, 0o755)
	printed := map[string]bool{}
	for _, cv := range agg.Violations {
		if k := matchKnown(known, id, cv.V); k != nil {
			knownSeen[k.ID]++
			knownWhat[k.ID] = k.What
			continue
		}
		unlisted++
		key := cv.V.Kind + "|" + cv.V.Sig
		if printed[key] && replayN >= 5 {
			continue
		}
		printed[key] = true
		replayN++
		rp := filepath.Join(rpdir, fmt.Sprintf("%s-%d-%d.json", id, seed, replayN))
		data, _ := json.MarshalIndent(map[string]any{"property": id, "case": cv.Case, "violation": cv.V}, "", " ")
		os.WriteFile(rp, data, 0o644)
		if replayN <= 12 {
			fmt.Printf("VIOLATION property=%s replay=%s kind=%s sig=%q\n", id, rp, cv.V.Kind, cv.V.Sig)
			d := cv.V.Detail
			if len(d) > 600 {
				d = d[:600] + "..."
			}
			fmt.Printf("  detail: %s\n", strings.ReplaceAll(d, "\n", "\n          "))
		}
		exit = 1
	}
	if unlisted > 0 {
		counts := map[string]int{}
		for _, cv := range agg.Violations {
			if matchKnown(known, id, cv.V) == nil {
				counts[cv.V.Kind+" | "+cv.V.Sig]++
			}
		}
		keys := make([]string, 0, len(counts))
		for k := range counts {
			keys = append(keys, k)
		}
		sort.Slice(keys, func(i, j int) bool { return counts[keys[i]] > counts[keys[j]] })
		for i, k := range keys {
			if i >= 40 {
				break
			}
			fmt.Printf("  unlisted-signature x%d: %s\n", counts[k], k)
		}
	}
	kids := []string{}
	for kid := range knownSeen {
		kids = append(kids, kid)
	}
	sort.Strings(kids)
	for _, kid := range kids {
		fmt.Printf("KNOWN-FINDING: property=%s %s: %s (seen %d times in this run)\n", id, kid, knownWhat[kid], knownSeen[kid])
	}

	floor := p.Floor(tier)
	dn := len(agg.Nontrivial)
	for _, n := range agg.Notes {
		if strings.HasPrefix(n, "HARNESS-PANIC") && exit == 0 {
			fmt.Printf("INCONCLUSIVE property=%s the harness itself panicked in a worker: %s\n", id, n)
			exit = 3
		}
	}
	if replayPath == "" && exit == 0 && dn < floor {
		fmt.Printf("INCONCLUSIVE property=%s observed too little: distinct_nontrivial=%d < floor=%d (evaluations=%d, inconclusive=%d, dead children=%d)\n", id, dn, floor, agg.Evals, agg.Inconclusive, agg.CasesDead)
		exit = 3
	}

	// Evidence
	if replayPath == "" {
		tierOut := tier
		if tierOut != "quick" && tierOut != "thorough" {
			tierOut = "quick"
		}
		cov := map[string]any{
			"evaluations":         agg.Evals,
			"distinct_nontrivial": dn,
			"rule":                p.Rule(),
			"samples":             agg.Samples,
			"cases":               agg.CasesRun,
			"children_died":       agg.CasesDead,
			"inconclusive":        agg.Inconclusive,
			"observed":            agg.Stats,
			"floor":               floor,
		}
		if len(agg.Samples) == 0 {
			cov["samples"] = []any{"(no sample recorded)"}
		}
		if len(agg.Notes) > 0 {
			cov["notes"] = agg.Notes
		}
		kf := map[string]int{}
		for k, v := range knownSeen {
			kf[k] = v
		}
		cov["known_findings_seen"] = kf
		ev := map[string]any{
			"property_id": id,
			"tier":        tierOut,
			"seed":        int64(seed),
			"level":       p.Level(),
			"coverage":    cov,
			"assumptions": p.Assumptions(),
			"wall_s":      time.Since(start).Seconds(),
			"violations":  unlisted,
		}
		data, _ := json.MarshalIndent(ev, "", " ")
		evdir := filepath.Join(vdir, "evidence")
		if d := os.Getenv("VERIF_EVIDENCE_DIR"); d != "" {
			// development aid (runs against a scratch checkout): keep the real evidence untouched
			evdir = d
		}
		os.MkdirAll(evdir, 0o755)
		os.WriteFile(filepath.Join(evdir, id+".json"), data, 0o644)
	}
	verdict := "HELD"
	if exit == 1 {
		verdict = "VIOLATED"
	} else if exit == 3 {
		verdict = "INCONCLUSIVE"
	}
	fmt.Printf("%s property=%s tier=%s seed=%d cases=%d evaluations=%d distinct_nontrivial=%d unlisted_violations=%d known=%d inconclusive=%d wall=%.1fs\n",
		verdict, id, tier, seed, agg.CasesRun, agg.Evals, dn, unlisted, len(knownSeen), agg.Inconclusive, time.Since(start).Seconds())
	return exit
}

func runChild(p Property, c Case, exe, tmpRoot, tier string) (*CaseResult, bool) {
	dir := filepath.Join(tmpRoot, fmt.Sprintf("case%05d", c.Idx))
	os.MkdirAll(dir, 0o755)
	defer func() {
		if os.Getenv("VERIF_KEEP") == "" {
			RemoveAllScratch(dir)
		}
	}()
	caseFile := filepath.Join(dir, "case.json")
	resFile := filepath.Join(dir, "result.json")
	errFile := filepath.Join(dir, "stderr.txt")
	data, _ := json.Marshal(c)
	os.WriteFile(caseFile, data, 0o644)
	ef, _ := os.Create(errFile)
	// a case may ask for the build without the race detector (it is several times faster and reaches
	// interleavings the instrumented build does not); ./check provides it for the properties that use it
	if c.Bool("plain_build", false) {
		if pe := os.Getenv("VERIF_PLAIN_EXE"); pe != "" {
			exe = pe
		}
	}
	cmd := exec.Command(exe, "worker", caseFile, resFile)
	cmd.Stdout = ef
	cmd.Stderr = ef
	cmd.Env = append(os.Environ(),
		"GOTRACEBACK=all",
		"VERIF_WORKDIR="+dir,
		fmt.Sprintf("VERIF_CASE_IDX=%d", c.Idx),
		"GORACE=halt_on_error=0 log_path="+filepath.Join(dir, "race"),
	)
	cmd.SysProcAttr = &syscall.SysProcAttr{Setpgid: true}
	if err := cmd.Start(); err != nil {
		ef.Close()
		r := NewResult()
		r.Inconclusive++
		r.Note("could not start child: %v", err)
		return r, true
	}
	done := make(chan error, 1)
	go func() { done <- cmd.Wait() }()
	timeout := p.Timeout(tier)
	var waitErr error
	timedOut := false
	select {
	case waitErr = <-done:
	case <-time.After(timeout):
		timedOut = true
		cmd.Process.Signal(syscall.SIGQUIT)
		select {
		case waitErr = <-done:
		case <-time.After(20 * time.Second):
			syscall.Kill(-cmd.Process.Pid, syscall.SIGKILL)
			waitErr = <-done
		}
	}
	ef.Close()
	syscall.Kill(-cmd.Process.Pid, syscall.SIGKILL) // leftover grandchildren
	var res *CaseResult
	if rd, err := os.ReadFile(resFile); err == nil {
		r := NewResult()
		if json.Unmarshal(rd, r) == nil {
			res = r
			if res.Stats == nil {
				res.Stats = map[string]int64{}
			}
		}
	}
	stderrText := readTail(errFile, 4<<20)
	if os.Getenv("VERIF_SHOW_STDERR") != "" {
		fmt.Fprintf(os.Stderr, "----- child %d stderr -----\n%s\n", c.Idx, stderrText)
	}
	if lc := ReadLastCall(dir); lc != "" {
		stderrText += "\nLASTCALL " + lc + "\n"
	}
	dead := false
	if res == nil {
		dead = true
		res = NewResult()
		// partial progress the child may have left behind
		if pd, err := os.ReadFile(filepath.Join(dir, "partial.json")); err == nil {
			json.Unmarshal(pd, res)
			if res.Stats == nil {
				res.Stats = map[string]int64{}
			}
		}
		exitStr := ""
		if waitErr != nil {
			exitStr = waitErr.Error()
		}
		if timedOut {
			if w := DeadlockWitness(stderrText); w != "" {
				res.Violate("deadlock", "deadlock:"+w, "child stalled past the watchdog and the goroutine dump shows every semadb goroutine blocked on locks:\n"+w, trimDump(stderrText))
			} else if cc, ok := p.(CrashClassifier); ok {
				vs := cc.ClassifyCrash(c, stderrText, "timeout")
				if len(vs) == 0 {
					res.Inconclusive++
					res.Note("case %d: watchdog expired without deadlock witness", c.Idx)
				}
				res.Violations = append(res.Violations, vs...)
			} else {
				res.Inconclusive++
				res.Note("case %d: watchdog expired without deadlock witness", c.Idx)
			}
		} else if strings.Contains(stderrText, "bind: address already in use") && !strings.Contains(stderrText, "goroutine ") {
			// a listener port of this worker was taken by something else on the
			// machine: an environment fault, never a verdict about the repository
			res.Inconclusive++
			res.Note("case %d: a loopback port was already in use; case not judged", c.Idx)
		} else if cc, ok := p.(CrashClassifier); ok {
			res.Violations = append(res.Violations, cc.ClassifyCrash(c, stderrText, exitStr)...)
		} else {
			sig, detail := ClassifyDeath(stderrText, exitStr)
			if strings.Contains(sig, "|at=semaverif/") && strings.Contains(sig, "|inner=|") {
				// the faulting goroutine has no semadb frame at all: a bug of the
				// harness itself, never a verdict about the repository
				res.Inconclusive++
				res.Note("HARNESS-PANIC in case %d (%s): %s", c.Idx, c.Name, sig)
				fmt.Printf("HARNESS-PANIC property=%s case=%d %s\n%s\n", c.Prop, c.Idx, sig, firstLines(detail, 25))
			} else {
				res.Violate("crash", sig, detail, nil)
			}
		}
	}
	// race reports
	for _, rr := range CollectRaceReports(dir) {
		if hs, ok := p.(HarnessRaceSignals); ok && hs.HarnessRacesAreSignals() {
			rr.Key = strings.TrimPrefix(rr.Key, "HARNESS:")
		}
		if strings.HasPrefix(rr.Key, "HARNESS:") {
			res.Inconclusive++
			res.Note("HARNESS-RACE (both accesses in harness code, not a property verdict): %s\n%s", rr.Key, rr.Text)
			continue
		}
		res.Violations = append(res.Violations, Violation{Kind: "race", Sig: rr.Key, Detail: rr.Text})
		res.Stats["race_reports"]++
	}
	return res, dead
}

func firstLines(s string, n int) string {
	lines := strings.Split(s, "\n")
	if len(lines) > n {
		lines = lines[:n]
	}
	return strings.Join(lines, "\n")
}

func readTail(path string, max int64) string {
	f, err := os.Open(path)
	if err != nil {
		return ""
	}
	defer f.Close()
	st, _ := f.Stat()
	if st.Size() > max {
		// keep head and tail
		head := make([]byte, max/2)
		f.Read(head)
		tail := make([]byte, max/2)
		f.ReadAt(tail, st.Size()-max/2)
		return string(head) + "\n...[snip]...\n" + string(tail)
	}
	b, _ := os.ReadFile(path)
	return string(b)
}

func trimDump(s string) string {
	// a goroutine dump: keep the goroutines that are inside semadb or harness code (the runtime's own
	// GC / timer goroutines are noise), the rest of the text as it is
	if strings.Contains(s, "\ngoroutine ") {
		var keep []string
		for _, b := range strings.Split(s, "\n\n") {
			t := strings.TrimLeft(b, "\n")
			if !strings.HasPrefix(t, "goroutine ") || strings.Contains(b, "semafind/semadb/") || strings.Contains(b, "semaverif/") {
				keep = append(keep, b)
			}
		}
		s = strings.Join(keep, "\n\n")
	}
	if len(s) > 60000 {
		return s[:60000] + "...(truncated)"
	}
	return s
}

// AtWorkerExit holds clean-up functions of helper packages (e.g. release of a claimed port window).
var AtWorkerExit []func()

// WorkerMain is the child side.
func WorkerMain(caseFile, resFile string) int {
	data, err := os.ReadFile(caseFile)
	if err != nil {
		fmt.Fprintln(os.Stderr, err)
		return 2
	}
	var c Case
	if err := json.Unmarshal(data, &c); err != nil {
		fmt.Fprintln(os.Stderr, err)
		return 2
	}
	p := Lookup(c.Prop)
	if p == nil {
		fmt.Fprintln(os.Stderr, "unknown property", c.Prop)
		return 2
	}
	exe, _ := os.Executable()
	env := &Env{Dir: os.Getenv("VERIF_WORKDIR"), Exe: exe}
	if env.Dir == "" {
		env.Dir, _ = os.MkdirTemp("", "semaverif-worker")
		defer RemoveAllScratch(env.Dir)
	}
	res := p.RunCase(c, env)
	for _, f := range AtWorkerExit {
		f()
	}
	out, err := json.Marshal(res)
	if err != nil {
		fmt.Fprintln(os.Stderr, "cannot marshal result:", err)
		// drop witnesses and retry
		for i := range res.Violations {
			res.Violations[i].Witness = nil
		}
		res.Samples = nil
		out, _ = json.Marshal(res)
	}
	tmp := resFile + ".tmp"
	os.WriteFile(tmp, out, 0o644)
	os.Rename(tmp, resFile)
	return 0
}

// SavePartial lets a worker persist progress so that a later crash does not
// lose the counts (the crash itself is reported by the parent).
func SavePartial(env *Env, res *CaseResult) {
	res.mu.Lock()
	out, err := json.Marshal(res)
	res.mu.Unlock()
	if err == nil {
		tmp := filepath.Join(env.Dir, "partial.json.tmp")
		os.WriteFile(tmp, out, 0o644)
		os.Rename(tmp, filepath.Join(env.Dir, "partial.json"))
	}
}

// ---------------------------------------------------------------------------
// Seeds

func SplitMix(x uint64) uint64 {
	x += 0x9e3779b97f4a7c15
	z := x
	z = (z ^ (z >> 30)) * 0xbf58476d1ce4e5b9
	z = (z ^ (z >> 27)) * 0x94d049bb133111eb
	return z ^ (z >> 31)
}

func CaseSeed(seed uint64, prop string, i int) uint64 {
	return SplitMix(seed ^ Hash64(prop) ^ SplitMix(uint64(i)+1))
}

func SeedFromEnv() uint64 {
	s := os.Getenv("VERIF_SEED")
	if s == "" {
		return 1
	}
	v, err := strconv.ParseInt(s, 10, 64)
	if err != nil {
		return Hash64(s)
	}
	return uint64(v)
}

// Subcommands lets property packages register extra child entry points
// (servers, cluster nodes, crash-test workers).
var Subcommands = map[string]func(args []string) int{}
