package fw

import (
	"os"
	"path/filepath"
	"regexp"
	"sort"
	"strings"
)

var lineNoRe = regexp.MustCompile(`:\d+( \+0x[0-9a-f]+)?$`)

// frames extracts the function names of a goroutine stack block.
func frames(block string) []string {
	var out []string
	for _, ln := range strings.Split(block, "\n") {
		if ln == "" || strings.HasPrefix(ln, "\t") || strings.HasPrefix(ln, " ") {
			continue
		}
		if strings.HasPrefix(ln, "goroutine ") || strings.HasPrefix(ln, "created by ") || strings.HasPrefix(ln, "[") {
			continue
		}
		out = append(out, stripArgs(strings.TrimSpace(ln)))
	}
	return out
}

// stripArgs removes the trailing argument list of a traceback line.
func stripArgs(fn string) string {
	if !strings.HasSuffix(fn, ")") {
		return fn
	}
	depth := 0
	for i := len(fn) - 1; i >= 0; i-- {
		switch fn[i] {
		case ')':
			depth++
		case '(':
			depth--
			if depth == 0 {
				// keep method receivers like pkg.(*T).M: they are followed by '.'
				return fn[:i]
			}
		}
	}
	return fn
}

func shortFn(fn string) string {
	fn = strings.TrimPrefix(fn, "github.com/semafind/semadb/")
	fn = strings.TrimPrefix(fn, "go.etcd.io/")
	// strip generic instantiation noise
	if i := strings.Index(fn, "[...]"); i >= 0 {
		fn = fn[:i] + fn[i+5:]
	}
	return fn
}

func isSema(fn string) bool {
	return strings.Contains(fn, "github.com/semafind/semadb/")
}

// ClassifyDeath turns the stderr of a dead child into a stable signature.
func ClassifyDeath(stderr, exitErr string) (sig, detail string) {
	kind := "exit"
	head := ""
	idx := -1
	for _, marker := range []string{"fatal error: ", "panic: ", "unexpected fault address", "SIGSEGV", "checkptr:"} {
		if i := strings.Index(stderr, marker); i >= 0 && (idx < 0 || i < idx) {
			idx = i
		}
	}
	if idx >= 0 {
		end := strings.Index(stderr[idx:], "\n")
		if end < 0 {
			end = len(stderr) - idx
		}
		head = stderr[idx : idx+end]
		switch {
		case strings.HasPrefix(head, "fatal error: all goroutines are asleep"):
			kind = "deadlock-runtime"
		case strings.HasPrefix(head, "fatal error: "):
			kind = "fatal"
		case strings.HasPrefix(head, "panic: "):
			kind = "panic"
		default:
			kind = "fault"
		}
	}
	// first goroutine block after the head = the faulting goroutine
	var fr []string
	if idx >= 0 {
		rest := stderr[idx:]
		if g := strings.Index(rest, "\ngoroutine "); g >= 0 {
			blk := rest[g+1:]
			if e := strings.Index(blk, "\n\n"); e >= 0 {
				blk = blk[:e]
			}
			fr = frames(blk)
		}
	}
	inner, outer := "", ""
	firstLib := ""
	for _, f := range fr {
		if strings.HasPrefix(f, "runtime.") || strings.HasPrefix(f, "panic") {
			continue
		}
		if firstLib == "" {
			firstLib = shortFn(f)
		}
		if isSema(f) {
			if inner == "" {
				inner = shortFn(f)
			}
			outer = shortFn(f)
		}
	}
	h := head
	// strip addresses from the head for stability
	h = regexp.MustCompile(`0x[0-9a-f]+`).ReplaceAllString(h, "0x?")
	h = regexp.MustCompile(`\d{3,}`).ReplaceAllString(h, "N")
	if len(h) > 120 {
		h = h[:120]
	}
	sig = kind + ":" + h + "|at=" + firstLib + "|inner=" + inner + "|outer=" + outer
	d := stderr
	if idx >= 0 {
		d = stderr[idx:]
	}
	if len(d) > 6000 {
		d = d[:6000] + "...(truncated)"
	}
	detail = "child process died (" + exitErr + "): " + d
	return
}

// ---------------------------------------------------------------------------
// Race reports

type RaceReport struct {
	Key  string
	Text string
}

// CollectRaceReports reads race.<pid> logs in dir and de-duplicates the
// report blocks by, for each of the two stacks, innermost semadb frame and
// outermost semadb frame (line numbers stripped).
func CollectRaceReports(dir string) []RaceReport {
	matches, _ := filepath.Glob(filepath.Join(dir, "race.*"))
	seen := map[string]bool{}
	var out []RaceReport
	for _, m := range matches {
		data, err := os.ReadFile(m)
		if err != nil {
			continue
		}
		for _, blk := range strings.Split(string(data), "==================") {
			if !strings.Contains(blk, "WARNING: DATA RACE") {
				continue
			}
			key := raceKey(blk)
			if seen[key] {
				continue
			}
			seen[key] = true
			t := blk
			if len(t) > 5000 {
				t = t[:5000] + "...(truncated)"
			}
			out = append(out, RaceReport{Key: key, Text: t})
		}
	}
	return out
}

func raceKey(blk string) string {
	// sections: "Write at ... by goroutine N:", "Previous read at ... by goroutine M:"
	secs := regexp.MustCompile(`(?m)^(Write|Read|Previous write|Previous read|Atomic write|Atomic read|Previous atomic write|Previous atomic read) at .*$`).FindAllStringIndex(blk, -1)
	var parts []string
	harnessOnly := true
	for i, s := range secs {
		end := len(blk)
		if i+1 < len(secs) {
			end = secs[i+1][0]
		}
		sec := blk[s[0]:end]
		if g := strings.Index(sec, "\nGoroutine "); g >= 0 {
			sec = sec[:g]
		}
		lines := strings.Split(sec, "\n")
		op := strings.Fields(lines[0])
		opName := op[0]
		if opName == "Previous" || opName == "Atomic" {
			opName = op[0] + " " + op[1]
		}
		opName = strings.ToLower(strings.TrimPrefix(opName, "Previous "))
		inner, outer := "", ""
		firstNonStd := ""
		for _, ln := range lines[1:] {
			if strings.HasPrefix(ln, "  ") && !strings.HasPrefix(ln, "      ") {
				fn := stripArgs(strings.TrimSpace(ln))
				// the first frame outside the Go standard library (its packages have no dot in
				// the first path element) says whose access this is
				if firstNonStd == "" {
					first := strings.SplitN(fn, "/", 2)[0]
					if strings.HasPrefix(fn, "semaverif/") || strings.Contains(first, ".") && !strings.HasPrefix(fn, "golang.org/x/") {
						firstNonStd = fn
					}
				}
				if isSema(fn) {
					if inner == "" {
						inner = shortFn(fn)
					}
					outer = shortFn(fn)
				}
			}
		}
		parts = append(parts, opName+"@"+inner+"<"+outer)
		if !strings.HasPrefix(firstNonStd, "semaverif/") {
			harnessOnly = false
		}
	}
	sort.Strings(parts)
	if harnessOnly && len(secs) > 0 {
		// both accesses are made by harness code (e.g. two harness goroutines sharing a PRNG): a bug
		// of the machinery, never a verdict about the property
		return "HARNESS:" + strings.Join(parts, " || ")
	}
	return strings.Join(parts, " || ")
}

// ---------------------------------------------------------------------------
// Deadlock witness from a goroutine dump (SIGQUIT output)

// DeadlockWitness returns a non-empty summary iff the dump shows at least two
// goroutines inside semadb code blocked on sync primitives and no goroutine
// with a semadb frame that is runnable, running or in a syscall.
func DeadlockWitness(dump string) string { return DeadlockWitnessMin(dump, 2) }

// DeadlockWitnessMin is DeadlockWitness with a chosen minimum number of goroutines blocked on a lock
// inside semadb code. min = 1 covers a leaked lock (the holder returned without unlocking): one
// goroutine waits for a mutex while no goroutine at all is running, runnable or in a syscall inside
// semadb code, so nobody is left who could release it. Callers using min = 1 must make sure that no
// harness goroutine legitimately holds the lock while being outside semadb code (e.g. by sampling
// twice, long after every harness delay has expired).
func DeadlockWitnessMin(dump string, min int) string {
	blocks := strings.Split(dump, "\n\n")
	blocked := []string{}
	active := 0
	hdr := regexp.MustCompile(`^goroutine \d+ (?:gp=\S+ m=\S+ (?:mp=\S+ )?)?\[([^\],]+)(?:, (\d+) minutes)?`)
	for _, b := range blocks {
		b = strings.TrimLeft(b, "\n")
		m := hdr.FindStringSubmatch(b)
		if m == nil {
			continue
		}
		state := m[1]
		fr := frames(b)
		sema := ""
		for _, f := range fr {
			if isSema(f) {
				sema = shortFn(f)
				break
			}
		}
		if sema == "" {
			continue
		}
		switch {
		case strings.HasPrefix(state, "sync.Mutex.Lock"), strings.HasPrefix(state, "sync.RWMutex.Lock"), strings.HasPrefix(state, "sync.RWMutex.RLock"), strings.HasPrefix(state, "semacquire"):
			blocked = append(blocked, state+" in "+sema)
		case strings.HasPrefix(state, "chan "), strings.HasPrefix(state, "select"), strings.HasPrefix(state, "sync.WaitGroup.Wait"), strings.HasPrefix(state, "sync.Cond.Wait"):
			// waiting on another goroutine: neutral
		case strings.HasPrefix(state, "sleep"), strings.HasPrefix(state, "IO wait"):
			// neutral (timers, network)
		default:
			active++
		}
	}
	if len(blocked) >= min && active == 0 {
		sort.Strings(blocked)
		// dedupe
		uniq := []string{}
		for i, s := range blocked {
			if i == 0 || s != blocked[i-1] {
				uniq = append(uniq, s)
			}
		}
		return strings.Join(uniq, "; ")
	}
	return ""
}
