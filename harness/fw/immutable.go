package fw

import (
	"os"
	"path/filepath"
	"syscall"
	"unsafe"
)

// The "immutable" inode flag (chattr +i) on a directory makes every attempt to create, remove or
// rename an entry in it fail with EPERM, also for root. Checks use it to make a file creation in one
// particular directory fail for a while. Needs CAP_LINUX_IMMUTABLE and a file system that has the
// flag (ext4, xfs, btrfs); SetImmutable returns an error otherwise and the caller skips its scenario.

const (
	fsIocGetFlags = 0x80086601
	fsIocSetFlags = 0x40086602
	fsImmutableFl = 0x10
)

// SetImmutable sets or clears the immutable flag of path.
func SetImmutable(path string, on bool) error {
	f, err := os.Open(path)
	if err != nil {
		return err
	}
	defer f.Close()
	var flags int64
	if _, _, e := syscall.Syscall(syscall.SYS_IOCTL, f.Fd(), fsIocGetFlags, uintptr(unsafe.Pointer(&flags))); e != 0 {
		return e
	}
	if on {
		flags |= fsImmutableFl
	} else {
		flags &^= fsImmutableFl
	}
	if _, _, e := syscall.Syscall(syscall.SYS_IOCTL, f.Fd(), fsIocSetFlags, uintptr(unsafe.Pointer(&flags))); e != 0 {
		return e
	}
	return nil
}

// ClearImmutableBelow removes the flag from every directory below root (before a scratch tree is
// deleted: a worker that died in the middle of such a scenario must not leave an undeletable tree).
func ClearImmutableBelow(root string) {
	filepath.Walk(root, func(p string, info os.FileInfo, err error) error {
		if err == nil && info.IsDir() {
			SetImmutable(p, false)
		}
		return nil
	})
}

// RemoveAllScratch deletes a scratch tree, clearing immutable flags first if the plain removal fails.
func RemoveAllScratch(root string) {
	if err := os.RemoveAll(root); err != nil {
		ClearImmutableBelow(root)
		os.RemoveAll(root)
	}
}
