package fw

import (
	"os"
	"path/filepath"
	"strings"
	"syscall"
)

// LastCall is a write-ahead note in a MAP_SHARED file: it survives the death
// of the process, so a fatal fault can be attributed to the call in flight.
type LastCall struct {
	mem []byte
}

func NewLastCall(dir string) *LastCall {
	f, err := os.OpenFile(filepath.Join(dir, "lastcall"), os.O_RDWR|os.O_CREATE, 0o644)
	if err != nil {
		return &LastCall{}
	}
	defer f.Close()
	f.Truncate(512)
	mem, err := syscall.Mmap(int(f.Fd()), 0, 512, syscall.PROT_READ|syscall.PROT_WRITE, syscall.MAP_SHARED)
	if err != nil {
		return &LastCall{}
	}
	return &LastCall{mem: mem}
}

func (l *LastCall) Set(s string) {
	if l.mem == nil {
		return
	}
	n := copy(l.mem[:511], s)
	l.mem[n] = 0
}

func ReadLastCall(dir string) string {
	b, err := os.ReadFile(filepath.Join(dir, "lastcall"))
	if err != nil {
		return ""
	}
	if i := strings.IndexByte(string(b), 0); i >= 0 {
		b = b[:i]
	}
	return string(b)
}
